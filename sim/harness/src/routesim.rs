//! E2 "static/routing" mode — C02 and C14.
//!
//! A real cluster (broker, coordinator sync + migration loops, proxies, SimRedis)
//! is driven through scaling, direct failovers and rebalances; a prober issues
//! rounds of GETs on fresh keys of chosen slots from every start proxy and
//! snapshots CLUSTER NODES / CLUSTER SLOTS. A round is judged only if every
//! proxy of the cluster held the broker's current epoch before and after it.

use crate::broker::{node_addrs, proxy_addr, Cfg as BrokerCfg};
use crate::cluster::{bulk_cmd, resp_to_strings, run_sim, spawn_coordinator, spawn_proxy, spawn_redis_nodes, BrokerHolder, Client, ProxyParams};
use crate::framework::{Check, Meta, RunRecord, Tier, Violation};
use crate::rng::Rng;
use crate::sandbox::ChildLimits;
use crate::simnet::Net;
use crate::slots::slot_of;
use serde_json::{json, Value};
use std::collections::{BTreeMap, BTreeSet};
use std::sync::Arc;
use std::time::Duration;
use undermoon::broker::MetaStore;
use undermoon::common::cluster::{Cluster, Role, SlotRangeTag};
use undermoon::protocol::{Array, BulkStr, Resp, RespVec};

pub struct RouteCheck {
    pub prop: &'static str,
}

impl Check for RouteCheck {
    fn id(&self) -> &'static str {
        self.prop
    }
    fn engine(&self) -> &'static str {
        "E2 cluster-sim (routing)"
    }
    fn budget(&self, tier: Tier) -> (u64, Duration) {
        match tier {
            Tier::Quick => (100, Duration::from_secs(50)),
            Tier::Thorough => (6_000, Duration::from_secs(1500)),
        }
    }
    fn gen_plan(&self, seed: u64, _index: u64, tier: Tier) -> Value {
        let mut rng = Rng::new(seed, "plan");
        let start_chunks = rng.range(1, 3) as usize;
        let spare = rng.range(2, 4) as usize;
        let n_proxies = 2 * start_chunks + spare;
        let mut ops = vec![];
        let n_ops = rng.range(1, 4);
        let mut t = rng.range(200, 1500);
        for j in 0..n_ops {
            // the first operation is always a scaling request: migrations are what this mode is about
            let kind = if j == 0 { 0 } else { rng.below(10) };
            let op = match kind {
                0..=3 => json!({"at": t, "op": "scale", "up": rng.chance(2, 3)}),
                4..=6 => json!({"at": t, "op": "failover", "p": rng.below((2 * start_chunks + 2) as u64)}),
                7 => json!({"at": t, "op": "balance"}),
                _ => json!({"at": t, "op": "reregister", "p": rng.below(n_proxies as u64)}),
            };
            if j == 0 && rng.chance(1, 2) {
                // one proxy falls behind on metadata around the start of the migration: long PreCheck windows
                ops.push(json!({"at": t.saturating_sub(rng.range(0, 300)), "op": "lag", "p": rng.below(8), "new": rng.chance(1, 2), "for_ms": rng.range(2500, 7000)}));
            }
            ops.push(op);
            if j == 0 && rng.chance(1, 2) {
                // the same migration delivered again under a newer epoch, after the handshake and
                // while the scan is still running (a rebalance changes nothing but the epoch)
                ops.push(json!({"at": t + rng.range(3000, 7000), "op": "balance"}));
            }
            t += rng.range(1800, 5000);
        }
        let all_slots = tier == Tier::Thorough && rng.chance(1, 20);
        json!({
            "engine": "cluster", "mode": "routing", "seed": seed,
            "cfg": {
                "start_chunks": start_chunks, "n_proxies": n_proxies,
                "max_latency_ms": *rng.pick(&[1u64, 2, 3, 6]),
                "migration_limit": *rng.pick(&[0u64, 1, 1, 2, 3]),
                "compress_meta": rng.chance(1, 2),
                "nodes_v1_mask": rng.below(256),
                "n_keys": rng.range(150, 500),
                "scan_count": *rng.pick(&[1u64, 1, 2]),
                "scan_interval_us": *rng.pick(&[50_000u64, 100_000, 200_000]),
                "random_slots": if all_slots { 16384 } else { rng.range(16, 48) },
                "duration_ms": t + 15000,
                "probe_every_ms": *rng.pick(&[400u64, 700, 1000]),
            },
            "ops": ops,
        })
    }
    fn execute(&self, plan: &Value, want_sample: bool) -> RunRecord {
        let plan = plan.clone();
        let prop = self.prop;
        run_sim(async move { run_routing(prop, &plan, want_sample).await })
    }
    fn limits(&self, _plan: Option<&Value>) -> ChildLimits {
        ChildLimits { wall_timeout: Duration::from_secs(240), rlimit_as: None, stack_bytes: 32 << 20 }
    }
    fn minimise_budget(&self, tier: Tier) -> u64 {
        match tier {
            Tier::Quick => 40,
            Tier::Thorough => 120,
        }
    }
    fn meta(&self) -> Meta {
        Meta {
            level: "exploration",
            rule: if self.prop == "C02" {
                "plan = cluster of 1-3 chunks (+2-4 spare proxies) with 40-160 preloaded keys, 1-5 admin operations (scale out/in, direct failover of a live proxy, rebalance, re-registration), slow scans so that migrations stay in flight; every 250-700 ms a probe round: GET on a fresh key for every range boundary +-1 and 24-96 random slots (thorough: occasionally all 16384) from EVERY start proxy, following MOVED. A round is judged only when all cluster proxies hold the broker's epoch before and after it. Non-trivial = >=1 judged round with a migration in flight or a non-Normal chunk role; distinct = distinct (delivery schedule, end state)."
            } else {
                "same runs; in every judged round CLUSTER NODES (V1/V2 per proxy) and CLUSTER SLOTS of every proxy are parsed: every slot exactly once in each, both agree, and for every probed slot the advertised node equals what the probe observed (executed locally iff advertised at the proxy itself, otherwise MOVED to the advertised address). Non-trivial = >=1 judged round while a migration was in flight."
            },
            real: vec!["broker::MemBrokerService", "coordinator proxy-sync and migration-sync loops", "proxy::* incl. cluster.rs (CLUSTER NODES/SLOTS), slot.rs, manager.rs", "migration::*", "common::proto encodings (plain/compressed)"],
            stubs: vec!["TCP (SimNet)", "Redis (SimRedis)", "HTTP coordinator->broker hop"],
            assumptions: vec!["failover is invoked directly on the broker while the demoted proxy stays alive", "probe keys are never written, so migration traffic for them is limited to EXISTS/DUMP/PTTL on the two legal nodes"],
            fault_kinds: vec!["msg_delay_reorder", "direct_failover", "proxy_lags_behind_on_metadata"],
        }
    }
}

async fn call(cl: &mut Client, addr: &str, parts: &[&[u8]]) -> Result<RespVec, ()> {
    cl.call_one(addr, &bulk_cmd(parts)).await
}

fn parse_int(r: &RespVec) -> Option<u64> {
    match r {
        Resp::Integer(i) | Resp::Simple(i) => std::str::from_utf8(i).ok()?.parse().ok(),
        Resp::Bulk(BulkStr::Str(s)) => std::str::from_utf8(s).ok()?.parse().ok(),
        _ => None,
    }
}

/// slot -> advertised "ip:port" from CLUSTER NODES; Err if a slot is listed twice
fn parse_nodes(text: &str) -> Result<BTreeMap<usize, String>, String> {
    let mut m = BTreeMap::new();
    for line in text.lines() {
        let f: Vec<&str> = line.split(' ').collect();
        if f.len() < 8 {
            return Err(format!("malformed CLUSTER NODES line: {}", line));
        }
        let addr = f[1].split('@').next().unwrap_or("").to_string();
        for r in f.iter().skip(8) {
            if r.is_empty() {
                continue;
            }
            let (s, e) = match r.split_once('-') {
                Some((a, b)) => (a.parse::<usize>(), b.parse::<usize>()),
                None => (r.parse::<usize>(), r.parse::<usize>()),
            };
            let (s, e) = match (s, e) {
                (Ok(s), Ok(e)) if s <= e && e < 16384 => (s, e),
                _ => return Err(format!("malformed slot range {} in CLUSTER NODES", r)),
            };
            for slot in s..=e {
                if let Some(prev) = m.insert(slot, addr.clone()) {
                    return Err(format!("CLUSTER NODES lists slot {} under {} and {}", slot, prev, addr));
                }
            }
        }
    }
    Ok(m)
}

fn parse_slots(r: &RespVec) -> Result<BTreeMap<usize, String>, String> {
    let mut m = BTreeMap::new();
    let items = match r {
        Resp::Arr(Array::Arr(items)) => items,
        other => return Err(format!("CLUSTER SLOTS reply is not an array: {:?}", resp_to_strings(other))),
    };
    for it in items {
        let f = match it {
            Resp::Arr(Array::Arr(f)) => f,
            _ => return Err("malformed CLUSTER SLOTS entry".to_string()),
        };
        let s = f.first().and_then(parse_int).ok_or("bad start")? as usize;
        let e = f.get(1).and_then(parse_int).ok_or("bad end")? as usize;
        let addr = match f.get(2) {
            Some(Resp::Arr(Array::Arr(n))) => {
                let ip = n.first().map(resp_to_strings).and_then(|v| v.first().cloned()).ok_or("bad ip")?;
                let port = n.get(1).map(resp_to_strings).and_then(|v| v.first().cloned()).ok_or("bad port")?;
                format!("{}:{}", ip, port)
            }
            _ => return Err("malformed CLUSTER SLOTS node".to_string()),
        };
        if s > e || e >= 16384 {
            return Err(format!("bad range {}-{} in CLUSTER SLOTS", s, e));
        }
        for slot in s..=e {
            if let Some(prev) = m.insert(slot, addr.clone()) {
                return Err(format!("CLUSTER SLOTS lists slot {} under {} and {}", slot, prev, addr));
            }
        }
    }
    Ok(m)
}

/// per slot: the nodes on which a data command may legally execute, and whether the slot is migrating
fn designated(view: &Cluster) -> (Vec<Vec<String>>, Vec<bool>, Vec<Option<(String, String)>>) {
    let mut allowed: Vec<Vec<String>> = vec![vec![]; 16384];
    let mut migrating = vec![false; 16384];
    let mut mig_proxies: Vec<Option<(String, String)>> = vec![None; 16384];
    for n in view.get_nodes() {
        if n.get_role() != Role::Master {
            continue;
        }
        for sr in n.get_slots() {
            let mig = !matches!(sr.tag, SlotRangeTag::None);
            for r in sr.get_range_list().get_ranges() {
                for s in r.start()..=r.end().min(16383) {
                    allowed[s].push(n.get_address().to_string());
                    if mig {
                        migrating[s] = true;
                        if let Some(m) = sr.tag.get_migration_meta() {
                            mig_proxies[s] = Some((m.src_proxy_address.clone(), m.dst_proxy_address.clone()));
                        }
                    }
                }
            }
        }
    }
    (allowed, migrating, mig_proxies)
}

#[derive(Default)]
pub(crate) struct Snap {
    pub(crate) raw_info: String,
    pub(crate) raw_nodes: String,
    pub(crate) raw_nodes_after_slots: String,
    pub(crate) nodes: BTreeMap<usize, String>,
    pub(crate) slots: BTreeMap<usize, String>,
    /// migrating slots according to the proxy's own metadata: slot -> (source proxy, destination proxy)
    pub(crate) mig: BTreeMap<usize, (String, String)>,
    pub(crate) problems: Vec<String>,
}

fn is_range_line(s: &str) -> Option<Vec<(usize, usize)>> {
    let mut it = s.split(' ');
    let n: usize = it.next()?.parse().ok()?;
    let mut v = vec![];
    for r in it {
        let (a, b) = r.split_once('-')?;
        v.push((a.parse().ok()?, b.parse().ok()?));
    }
    if v.len() == n && n > 0 {
        Some(v)
    } else {
        None
    }
}

pub(crate) async fn take_snap(mon: &mut Client, a: &str) -> Snap {
    let mut snap = Snap::default();
    let info = call(mon, a, &[b"UMCTL", b"INFO"]).await;
    let nodes = call(mon, a, &[b"CLUSTER", b"NODES"]).await;
    let slots_r = call(mon, a, &[b"CLUSTER", b"SLOTS"]).await;
    let nodes2 = call(mon, a, &[b"CLUSTER", b"NODES"]).await;
    if let Ok(r) = info.as_ref() {
        let strs = resp_to_strings(r);
        // everything before the "Replication" section describes routing metadata
        let upto = strs.iter().position(|x| x == "Replication").unwrap_or(strs.len());
        snap.raw_info = strs[..upto].join("|");
        let mut src: Option<String> = None;
        let mut dst: Option<String> = None;
        for x in strs[..upto].iter() {
            if let Some(v) = x.strip_prefix("src_proxy: ") {
                src = Some(v.to_string());
            } else if let Some(v) = x.strip_prefix("dst_proxy: ") {
                dst = Some(v.to_string());
            } else if let Some(ranges) = is_range_line(x) {
                if let (Some(sp), Some(dp)) = (src.take(), dst.take()) {
                    for (s, e) in ranges {
                        for slot in s..=e.min(16383) {
                            snap.mig.insert(slot, (sp.clone(), dp.clone()));
                        }
                    }
                }
            }
        }
    }
    match nodes {
        Ok(Resp::Bulk(BulkStr::Str(s))) => {
            snap.raw_nodes = String::from_utf8_lossy(&s).to_string();
            match parse_nodes(&snap.raw_nodes) {
                Ok(m) => snap.nodes = m,
                Err(e) => snap.problems.push(e),
            }
        }
        _ => snap.raw_nodes = "<none>".to_string(),
    }
    if let Ok(Resp::Bulk(BulkStr::Str(s))) = nodes2 {
        snap.raw_nodes_after_slots = String::from_utf8_lossy(&s).to_string();
    }
    match slots_r {
        Ok(r) => match parse_slots(&r) {
            Ok(m) => snap.slots = m,
            Err(e) => {
                // an error reply (no metadata yet) is not a topology
                if !matches!(r, Resp::Error(_)) {
                    snap.problems.push(e)
                }
            }
        },
        Err(()) => {}
    }
    snap
}

async fn synced(net: &Net, st: &MetaStore, limit: u64, mon: &mut Client) -> bool {
    let _ = net;
    for c in st.clusters.values() {
        for a in c.get_proxy_addresses() {
            let want = match st.get_proxy_by_address(&a, limit) {
                Some(p) => p.get_epoch(),
                None => return false,
            };
            match call(mon, &a, &[b"UMCTL", b"GETEPOCH"]).await.ok().as_ref().and_then(parse_int) {
                Some(e) if e == want => {}
                _ => return false,
            }
        }
    }
    true
}

async fn run_routing(prop: &'static str, plan: &Value, want_sample: bool) -> RunRecord {
    let mut rec = RunRecord::default();
    let seed = plan["seed"].as_u64().unwrap_or(0);
    let cfg = &plan["cfg"];
    let n_proxies = cfg["n_proxies"].as_u64().unwrap_or(4) as usize;
    let start_chunks = cfg["start_chunks"].as_u64().unwrap_or(1) as usize;
    let limit = cfg["migration_limit"].as_u64().unwrap_or(0);
    let net = Net::new(seed, cfg["max_latency_ms"].as_u64().unwrap_or(2));
    let bcfg = BrokerCfg { ordered: false, migration_limit: limit, quorum: 1, ttl: 60, hosts: vec![1; n_proxies] };
    let holder = BrokerHolder::new(bcfg);
    let mask = cfg["nodes_v1_mask"].as_u64().unwrap_or(0);
    for h in 0..n_proxies {
        spawn_redis_nodes(&net, h, 0, seed);
        let pp = ProxyParams { nodes_v1: (mask >> (h % 8)) & 1 == 1, ..Default::default() };
        let _ = spawn_proxy(&net, &proxy_addr(h, 0), &pp, 1);
        holder.add_proxy(h, 0).await.expect("add_proxy");
    }
    let svc = holder.get();
    svc.add_cluster("c0".to_string(), start_chunks * 4).await.expect("add_cluster");
    let mut cc = std::collections::HashMap::new();
    cc.insert("migration_scan_count".to_string(), cfg["scan_count"].as_u64().unwrap_or(4).to_string());
    cc.insert("migration_scan_interval".to_string(), cfg["scan_interval_us"].as_u64().unwrap_or(20000).to_string());
    let _ = svc.change_config("c0".to_string(), cc).await;
    let mut coord = spawn_coordinator(&net, &holder, 0, cfg["compress_meta"].as_bool().unwrap_or(false), true);
    tokio::time::sleep(Duration::from_millis(2500)).await;

    // preload
    {
        let mut cl = Client::new(&net, 800);
        for k in 0..cfg["n_keys"].as_u64().unwrap_or(40) {
            let key = format!("data{}:{}", k, seed % 997);
            let _ = cl.call(&proxy_addr(0, 0), &bulk_cmd(&[b"SET", key.as_bytes(), b"v"]), 4).await;
        }
    }
    // slot -> hash tag
    let mut tag_of: Vec<Option<String>> = vec![None; 16384];
    let mut found = 0;
    let mut n = 0u64;
    while found < 16384 && n < 2_000_000 {
        let t = format!("s{}", n);
        let s = slot_of(t.as_bytes());
        if tag_of[s].is_none() {
            tag_of[s] = Some(t);
            found += 1;
        }
        n += 1;
    }

    let mut ops: Vec<Value> = plan["ops"].as_array().cloned().unwrap_or_default();
    ops.sort_by_key(|o| o["at"].as_u64().unwrap_or(0));
    let mut next_op = 0usize;
    let mut later: Vec<(u64, &'static str)> = vec![];
    let mut lagging: Vec<(u64, String)> = vec![];
    let duration = cfg["duration_ms"].as_u64().unwrap_or(10_000);
    let every = cfg["probe_every_ms"].as_u64().unwrap_or(400);
    let n_random = cfg["random_slots"].as_u64().unwrap_or(32) as usize;
    let t0 = tokio::time::Instant::now();
    let mut mon = Client::new(&net, 700);
    let mut probe_id = 0u64;
    let mut rounds_judged = 0u64;
    let mut rounds_skipped = 0u64;
    let mut rounds_mig = 0u64;
    let mut rounds_role = 0u64;
    let mut probes_total = 0u64;
    let mut max_hops_seen = 0usize;
    let mut prng = Rng::new(seed, "probe");
    let mut t = 0u64;
    while t <= duration {
        let target = t0 + Duration::from_millis(t);
        if tokio::time::Instant::now() < target {
            tokio::time::sleep_until(target).await;
        }
        let due: Vec<(u64, &'static str)> = later.iter().filter(|(at, _)| *at <= t).cloned().collect();
        later.retain(|(at, _)| *at > t);
        for (_, k) in due {
            if k == "migrate" {
                let _ = holder.get().migrate_slots("c0".to_string()).await;
            }
        }
        let heal: Vec<(u64, String)> = lagging.iter().filter(|(at, _)| *at <= t).cloned().collect();
        lagging.retain(|(at, _)| *at > t);
        for (_, a) in heal {
            net.inner.lock().blocked.remove(&("coord".to_string(), a));
        }
        while next_op < ops.len() && ops[next_op]["at"].as_u64().unwrap_or(0) <= t {
            let o = ops[next_op].clone();
            next_op += 1;
            let svc = holder.get();
            let stc = svc.get_all_data().await.expect("data");
            let chunks = stc.clusters.values().next().map(|c| c.chunks.len()).unwrap_or(0);
            match o["op"].as_str().unwrap_or("") {
                "scale" => {
                    if o["up"].as_bool().unwrap_or(true) {
                        if svc.auto_scale_up_nodes("c0".to_string(), (chunks + 1) * 4).await.is_ok() {
                            later.push((t + 1500, "migrate"));
                        }
                    } else if chunks >= 2 {
                        let _ = svc.migrate_slots_to_scale_down("c0".to_string(), (chunks - 1) * 4).await;
                    }
                }
                "failover" => {
                    let members: Vec<String> = stc.clusters.values().flat_map(|c| c.get_proxy_addresses()).collect();
                    if !members.is_empty() {
                        let p = o["p"].as_u64().unwrap_or(0) as usize % members.len();
                        let _ = svc.replace_failed_proxy(members[p].clone()).await;
                        rec.fault("direct_failover");
                    }
                }
                "balance" => {
                    let _ = svc.balance_masters("c0".to_string()).await;
                }
                "lag" => {
                    let members: Vec<String> = stc.clusters.values().flat_map(|c| c.get_proxy_addresses()).collect();
                    let all: Vec<String> = (0..n_proxies).map(|h| proxy_addr(h, 0)).collect();
                    let pool = if o["new"].as_bool().unwrap_or(false) { all.iter().filter(|a| !members.contains(a)).cloned().collect::<Vec<_>>() } else { members };
                    if !pool.is_empty() {
                        let a = pool[o["p"].as_u64().unwrap_or(0) as usize % pool.len()].clone();
                        net.inner.lock().blocked.insert(("coord".to_string(), a.clone()));
                        lagging.push((t + o["for_ms"].as_u64().unwrap_or(2000), a));
                        rec.fault("proxy_lags_behind_on_metadata");
                    }
                }
                "reregister" => {
                    let p = o["p"].as_u64().unwrap_or(0) as usize % n_proxies;
                    let _ = holder.add_proxy(p, 0).await;
                }
                _ => {}
            }
            net.event("admin", 5, o["op"].as_str().unwrap_or(""));
        }

        if t % every == 0 && t > 0 {
            // ---- one probe round
            let st1 = holder.get().get_all_data().await.expect("data");
            let g1 = st1.get_global_epoch();
            if std::env::var("VERIF_DEBUG").is_ok() {
                eprintln!("[t={}] epoch {} stored-migrating {}", t, g1, st1.clusters.values().any(|c| c.is_migrating()));
            }
            if prop == "C02" && !synced(&net, &st1, limit, &mut mon).await {
                rounds_skipped += 1;
                t += 50;
                continue;
            }
            let view = match st1.get_cluster_by_name("c0", limit) {
                Some(v) => v,
                None => {
                    t += 50;
                    continue;
                }
            };
            let (allowed, migrating, _mig_proxies) = designated(&view);
            let members: Vec<String> = st1.clusters.values().flat_map(|c| c.get_proxy_addresses()).collect();
            let any_mig = migrating.iter().any(|m| *m);
            let any_role = st1.clusters.values().any(|c| c.chunks.iter().any(|ch| format!("{:?}", ch.role_position) != "Normal"));
            // slots of this round: boundaries +-1 and random ones
            let mut slots: BTreeSet<usize> = BTreeSet::new();
            for nd in view.get_nodes() {
                for sr in nd.get_slots() {
                    for r in sr.get_range_list().get_ranges() {
                        for d in [-1i64, 0, 1] {
                            for b in [r.start() as i64, r.end() as i64] {
                                let s = b + d;
                                if (0..16384).contains(&s) {
                                    slots.insert(s as usize);
                                }
                            }
                        }
                    }
                }
            }
            slots.insert(0);
            slots.insert(16383);
            if n_random >= 16384 {
                slots.extend(0..16384);
            } else {
                for _ in 0..n_random {
                    slots.insert(prng.below(16384) as usize);
                }
            }
            // topology snapshots (C14): INFO, NODES, SLOTS, NODES again
            let mut snaps: BTreeMap<String, Snap> = BTreeMap::new();
            if prop == "C14" {
                for a in members.iter() {
                    snaps.insert(a.clone(), take_snap(&mut mon, a).await);
                }
            }
            // probes (one client per start proxy, in parallel)
            let slots_v: Vec<usize> = slots.into_iter().collect();
            let mut handles = vec![];
            for (pi, a) in members.iter().enumerate() {
                let net = net.clone();
                let a = a.clone();
                let slots_v = slots_v.clone();
                let tag_of = tag_of.clone();
                let base = probe_id + (pi as u64) * 100_000;
                handles.push(tokio::spawn(async move {
                    let mut cl = Client::new(&net, 500 + pi);
                    let mut out = vec![];
                    for (i, s) in slots_v.iter().enumerate() {
                        let tag = match tag_of[*s].as_ref() {
                            Some(t) => t.clone(),
                            None => continue,
                        };
                        let key = format!("{{{}}}probe{}", tag, base + i as u64);
                        let r = cl.call(&a, &bulk_cmd(&[b"GET", key.as_bytes()]), 6).await;
                        out.push((*s, key, r));
                    }
                    (a, out)
                }));
            }
            let mut results = vec![];
            for h in handles {
                if let Ok(r) = h.await {
                    results.push(r);
                }
            }
            probe_id += 1_000_000;
            // post-conditions
            let st2 = holder.get().get_all_data().await.expect("data");
            if prop == "C02" && (st2.get_global_epoch() != g1 || !synced(&net, &st2, limit, &mut mon).await) {
                rounds_skipped += 1;
                t += 50;
                continue;
            }
            rounds_judged += 1;
            if any_mig {
                rounds_mig += 1;
            }
            if any_role {
                rounds_role += 1;
            }
            // second snapshot for C14 stability + structural checks
            let mut stable: BTreeMap<String, bool> = BTreeMap::new();
            if prop == "C14" {
                for a in members.iter() {
                    let s2 = take_snap(&mut mon, a).await;
                    if let Some(s1) = snaps.get(a) {
                        stable.insert(a.clone(), s1.raw_nodes == s2.raw_nodes && s1.raw_info == s2.raw_info && s1.raw_nodes == s1.raw_nodes_after_slots);
                        for p in s1.problems.iter() {
                            rec.violate(Violation::new("C14", "slot-listed-twice-or-malformed", format!("proxy {}: {}", a, p)));
                        }
                        if s1.raw_nodes == s1.raw_nodes_after_slots && s1.problems.is_empty() && s1.nodes != s1.slots {
                            let diff = (0..16384).find(|x| s1.nodes.get(x) != s1.slots.get(x));
                            rec.violate(Violation::new("C14", "nodes-slots-disagree", format!("proxy {}: CLUSTER NODES and CLUSTER SLOTS disagree, e.g. slot {:?}: {:?} vs {:?}", a, diff, diff.and_then(|d| s1.nodes.get(&d)), diff.and_then(|d| s1.slots.get(&d)))));
                        }
                    }
                }
            }
            // collect where the probe keys were touched
            let mut touched: BTreeMap<Vec<u8>, Vec<(String, String)>> = BTreeMap::new();
            for h in 0..n_proxies {
                for na in node_addrs(h, 0).iter() {
                    if let Some(r) = net.redis(na) {
                        let mut g = r.lock();
                        for e in g.log.iter() {
                            if e.cmd.len() >= 2 && e.cmd[1].windows(5).any(|w| w == b"probe") {
                                touched.entry(e.cmd[1].clone()).or_default().push((na.clone(), String::from_utf8_lossy(&e.cmd[0]).to_uppercase()));
                            }
                        }
                        // keep the logs small
                        g.log.clear();
                    }
                }
            }
            for (start, out) in results.iter() {
                for (s, key, r) in out.iter() {
                    probes_total += 1;
                    max_hops_seen = max_hops_seen.max(r.hops);
                    let tv = touched.get(key.as_bytes()).cloned().unwrap_or_default();
                    let gets: Vec<&(String, String)> = tv.iter().filter(|(_, c)| c == "GET").collect();
                    if prop == "C02" {
                        let ok_reply = matches!(r.reply, Ok(Resp::Bulk(BulkStr::Nil)));
                        if !ok_reply {
                            rec.violate(Violation::new("C02", "probe-not-served", format!("GET for slot {} starting at {} (path {:?}) was answered {:?} although all proxies were synced", s, start, r.path, r.reply.as_ref().map(resp_to_strings))));
                            continue;
                        }
                        if gets.len() != 1 {
                            rec.violate(Violation::new("C02", "executed-not-once", format!("GET for slot {} starting at {} executed {} times: {:?}", s, start, gets.len(), tv)));
                            continue;
                        }
                        let node = &gets[0].0;
                        if !allowed[*s].contains(node) {
                            rec.violate(Violation::new("C02", "executed-on-wrong-node", format!("GET for slot {} starting at {} (path {:?}) executed on {} but the broker designates {:?} (migrating: {})", s, start, r.path, node, allowed[*s], migrating[*s])));
                        }
                        for (n, c) in tv.iter() {
                            if !allowed[*s].contains(n) {
                                rec.violate(Violation::new("C02", "command-on-undesignated-node", format!("{} for a key of slot {} reached node {} which is neither owner nor migration source/destination {:?}", c, s, n, allowed[*s])));
                            }
                        }
                        let bound = if migrating[*s] { 3 } else { 1 };
                        if r.hops > bound {
                            rec.violate(Violation::new("C02", "too-many-redirections", format!("GET for slot {} (migrating: {}) starting at {} needed {} redirections: {:?}", s, migrating[*s], start, r.hops, r.path)));
                        }
                    } else {
                        // C14: advertised node vs observed routing, judged when this proxy's metadata and
                        // advertisement were the same before and after the probes
                        if stable.get(start) != Some(&true) {
                            rec.probe("c14_unstable_advertisement_skipped");
                            continue;
                        }
                        let snap = match snaps.get(start) {
                            Some(x) => x,
                            None => continue,
                        };
                        rec.probe("c14_probes_judged");
                        let executed_locally = r.hops == 0 && matches!(r.reply, Ok(Resp::Bulk(_)));
                        let first_moved = r.path.get(1).cloned();
                        let adv = match snap.nodes.get(s) {
                            Some(a) => a.clone(),
                            None => {
                                // not advertised: then this proxy must not serve or redirect the slot either
                                if executed_locally || first_moved.is_some() {
                                    rec.violate(Violation::new("C14", "served-but-not-advertised", format!("proxy {} lists slot {} under no node but handled a probe for it (path {:?})", start, s, r.path)));
                                }
                                continue;
                            }
                        };
                        if let Some((srcp, dstp)) = snap.mig.get(s) {
                            if start != srcp && start != dstp {
                                // a bystander cannot know the state of the handshake: it must advertise the
                                // migrating slot at its source or at its destination proxy, nowhere else
                                rec.probe("c14_bystander_migrating_slot");
                                if &adv != srcp && &adv != dstp {
                                    rec.violate(Violation::new("C14", "migrating-slot-advertised-at-third-party", format!("bystander {} advertises migrating slot {} at {} which is neither its source {} nor its destination {}", start, s, adv, srcp, dstp)));
                                }
                                continue;
                            }
                            rec.probe("c14_src_or_dst_migrating_slot");
                        }
                        // source and destination each pointing at the other = nobody serves the slot. Both
                        // snapshots are stable over the whole round, so this is not a matter of sampling time.
                        if let Some((srcp, dstp)) = snap.mig.get(s) {
                            if std::env::var("VERIF_DEBUG").is_ok() && start == srcp && &adv == dstp {
                                eprintln!("[c14dbg] slot {} src {} says dst {}; dst stable {:?}; dst says {:?}", s, srcp, dstp, stable.get(dstp), snaps.get(dstp).and_then(|d| d.nodes.get(s)));
                            }
                            if start == srcp && &adv == dstp && stable.get(dstp) == Some(&true) {
                                if let Some(ds) = snaps.get(dstp) {
                                    if ds.nodes.get(s) == Some(srcp) {
                                        rec.violate(Violation::new("C14", "migrating-slot-served-by-nobody", format!("slot {}: source {} advertises it at the destination {} while the destination advertises it at the source (both unchanged over the round)", s, srcp, dstp)));
                                    }
                                }
                            }
                        }
                        if adv == *start {
                            if !executed_locally {
                                rec.violate(Violation::new("C14", "advertised-self-but-redirected", format!("proxy {} advertises slot {} at itself but answered a probe with path {:?} reply {:?}", start, s, r.path, r.reply.as_ref().map(resp_to_strings))));
                            }
                        } else if executed_locally {
                            rec.violate(Violation::new("C14", "advertised-elsewhere-but-executed", format!("proxy {} advertises slot {} at {} but executed the probe itself", start, s, adv)));
                        } else if first_moved.as_ref() != Some(&adv) {
                            rec.violate(Violation::new("C14", "advertised-differs-from-moved", format!("proxy {} advertises slot {} at {} but redirected the probe to {:?}", start, s, adv, first_moved)));
                        }
                    }
                }
            }
        }
        t += 50;
    }
    coord.crash();
    rec.vtime_ms = net.now_ms();
    rec.probe_n("rounds_judged", rounds_judged);
    rec.probe_n("rounds_skipped_not_synced", rounds_skipped);
    rec.probe_n("rounds_judged_with_migration_in_flight", rounds_mig);
    rec.probe_n("rounds_judged_with_promoted_replicas", rounds_role);
    rec.probe_n("probes", probes_total);
    rec.probe_n(&format!("max_hops_{}", max_hops_seen), 1);
    rec.nontrivial = if prop == "C02" { rounds_judged > 0 && (rounds_mig > 0 || rounds_role > 0) } else { rounds_mig > 0 };
    {
        let g = net.inner.lock();
        rec.trace_hash = g.trace.0;
        rec.sched_hash = g.sched.0;
        rec.steps = g.seq;
        rec.faults.insert("msg_delay_reorder".into(), g.delivered);
    }
    let st = holder.get().get_all_data().await.expect("data");
    let mut sh = crate::rng::TraceHash::new();
    sh.add(serde_json::to_value(&st).map(|v| v.to_string()).unwrap_or_default().as_bytes());
    rec.state_hash = sh.0;
    if want_sample {
        rec.sample = Some(json!({"plan": plan, "rounds_judged": rounds_judged, "rounds_skipped": rounds_skipped, "probes": probes_total, "final_epoch": st.get_global_epoch()}));
    }
    let _ = Arc::new(0);
    rec
}
