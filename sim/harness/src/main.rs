//! simrun — deterministic simulation harness for doyoubi/undermoon.
//!
//!   simrun check <Cxx> <quick|thorough>
//!   simrun replay <file>
//!   simrun one <Cxx> <seed> [index]        (debug: run one seed, print the record)
//!   simrun selftest determinism <Cxx> [n]

mod alloc;
mod broker;
mod cluster;
mod connsim;
mod controlsim;
mod framework;
mod lin;
mod migsim;
mod proxysim;
mod slots;
mod simnet;
mod simredis;
mod rng;
mod routesim;
mod sandbox;
mod shuttle_eng;
mod views;
mod wiresim;

use framework::{Check, Tier};

#[global_allocator]
static GLOBAL: alloc::Counting = alloc::Counting;

static C01: broker::BrokerCheck = broker::BrokerCheck { prop: "C01" };
static C04: broker::BrokerCheck = broker::BrokerCheck { prop: "C04" };
static C06: broker::BrokerCheck = broker::BrokerCheck { prop: "C06" };
static C10: broker::BrokerCheck = broker::BrokerCheck { prop: "C10" };
static C12: broker::BrokerCheck = broker::BrokerCheck { prop: "C12" };
static C18: broker::BrokerCheck = broker::BrokerCheck { prop: "C18" };
static C03: migsim::MigrationCheck = migsim::MigrationCheck { prop: "C03" };
static C19: migsim::MigrationCheck = migsim::MigrationCheck { prop: "C19" };
static C07: controlsim::ControlCheck = controlsim::ControlCheck { prop: "C07" };
static C13L: controlsim::ControlCheck = controlsim::ControlCheck { prop: "C13" };
static C02: routesim::RouteCheck = routesim::RouteCheck { prop: "C02" };
static C14: routesim::RouteCheck = routesim::RouteCheck { prop: "C14" };
static C05: proxysim::ProxyCheck = proxysim::ProxyCheck { prop: "C05" };
static C09: proxysim::ProxyCheck = proxysim::ProxyCheck { prop: "C09" };
static C20: proxysim::ProxyCheck = proxysim::ProxyCheck { prop: "C20" };
static C17: wiresim::WireCheck = wiresim::WireCheck;
static C08: connsim::ConnCheck = connsim::ConnCheck { prop: "C08" };
static C15: connsim::ConnCheck = connsim::ConnCheck { prop: "C15" };
static C16: connsim::ConnCheck = connsim::ConnCheck { prop: "C16" };
static C11: shuttle_eng::ShuttleCheck = shuttle_eng::ShuttleCheck { prop: "C11" };

static C13E1: broker::BrokerCheck = broker::BrokerCheck { prop: "C13" };
static C13_COMPOSITE: std::sync::OnceLock<framework::CompositeCheck> = std::sync::OnceLock::new();

fn c13() -> &'static dyn Check {
    C13_COMPOSITE.get_or_init(|| framework::CompositeCheck {
        prop: "C13",
        engine: "E1 broker-sim (crash-point enumeration) + E2 cluster-sim (live recovery)",
        parts: vec![(&C13E1, 7), (&C13L, 1)],
        quick: (640, 55),
        thorough: (24_000, 1500),
        level: "fault_enumeration",
    })
}

static C05CONC: shuttle_eng::ShuttleCheck = shuttle_eng::ShuttleCheck { prop: "C05" };
static C05_COMPOSITE: std::sync::OnceLock<framework::CompositeCheck> = std::sync::OnceLock::new();

fn c05() -> &'static dyn Check {
    C05_COMPOSITE.get_or_init(|| framework::CompositeCheck {
        prop: "C05",
        engine: "E2 cluster-sim (sequential install model) + E4 shuttle-sim (concurrent installs)",
        parts: vec![(&C05, 15), (&C05CONC, 1)],
        quick: (1600, 45),
        thorough: (200_000, 1200),
        level: "exploration",
    })
}

static C02M: migsim::MigrationCheck = migsim::MigrationCheck { prop: "C02" };
static C02_COMPOSITE: std::sync::OnceLock<framework::CompositeCheck> = std::sync::OnceLock::new();

fn c02() -> &'static dyn Check {
    C02_COMPOSITE.get_or_init(|| framework::CompositeCheck {
        prop: "C02",
        engine: "E2 cluster-sim (routing: probe rounds on synced clusters) + E2 cluster-sim (migration traffic: redirection bound)",
        parts: vec![(&C02, 1), (&C02M, 2)],
        quick: (300, 60),
        thorough: (18_000, 1500),
        level: "exploration",
    })
}

static C14L: proxysim::ProxyCheck = proxysim::ProxyCheck { prop: "C14" };
static C14_COMPOSITE: std::sync::OnceLock<framework::CompositeCheck> = std::sync::OnceLock::new();

fn c14() -> &'static dyn Check {
    C14_COMPOSITE.get_or_init(|| framework::CompositeCheck {
        prop: "C14",
        engine: "E2 cluster-sim (routing: reachable broker states, live migrations) + E2 cluster-sim (hand-built layouts)",
        parts: vec![(&C14, 1), (&C14L, 3)],
        quick: (400, 60),
        thorough: (24_000, 1500),
        level: "exploration",
    })
}

fn lookup(id: &str) -> Option<&'static dyn Check> {
    Some(match id {
        "C01" => &C01,
        "C04" => &C04,
        "C06" => &C06,
        "C10" => &C10,
        "C12" => &C12,
        "C13" => c13(),
        "C18" => &C18,
        "C11" => &C11,
        "C08" => &C08,
        "C15" => &C15,
        "C16" => &C16,
        "C17" => &C17,
        "C05" => c05(),
        "C09" => &C09,
        "C20" => &C20,
        "C02" => c02(),
        "C14" => c14(),
        "C07" => &C07,
        "C13L" => &C13L,
        "C03" => &C03,
        "C19" => &C19,
        _ => return None,
    })
}

fn batch_seed() -> u64 {
    std::env::var("VERIF_SEED")
        .ok()
        .and_then(|s| s.parse::<u64>().ok())
        .unwrap_or(20260923)
}

fn main() {
    let args: Vec<String> = std::env::args().collect();
    let code = match args.get(1).map(|s| s.as_str()) {
        Some("check") => {
            let id = args.get(2).cloned().unwrap_or_default();
            let tier = match std::env::var("VERIF_TIER").ok().as_deref().or(args.get(3).map(|s| s.as_str())) {
                Some("thorough") => Tier::Thorough,
                _ => Tier::Quick,
            };
            let tier = match args.get(3).map(|s| s.as_str()) {
                Some("thorough") => Tier::Thorough,
                Some("quick") => Tier::Quick,
                _ => tier,
            };
            match lookup(&id) {
                Some(c) => framework::drive_check(c, tier, batch_seed()).exit_code,
                None => {
                    eprintln!("unknown check {}", id);
                    2
                }
            }
        }
        Some("replay") => {
            let path = args.get(2).cloned().unwrap_or_default();
            match std::fs::read_to_string(&path).ok().and_then(|s| serde_json::from_str::<serde_json::Value>(&s).ok()) {
                Some(v) => {
                    let id = v.get("check").and_then(|s| s.as_str()).unwrap_or("").to_string();
                    match lookup(&id) {
                        Some(c) => framework::replay_file(c, &v),
                        None => {
                            eprintln!("unknown check in replay file: {}", id);
                            2
                        }
                    }
                }
                None => {
                    eprintln!("cannot read replay file {}", path);
                    2
                }
            }
        }
        Some("one") => {
            let id = args.get(2).cloned().unwrap_or_default();
            let seed: u64 = args.get(3).and_then(|s| s.parse().ok()).unwrap_or(1);
            let index: u64 = args.get(4).and_then(|s| s.parse().ok()).unwrap_or(0);
            match lookup(&id) {
                Some(c) => {
                    let r = framework::run_one_seed(c, seed, index, Tier::Quick, true);
                    println!("{}", serde_json::to_string_pretty(&r).unwrap_or_default());
                    0
                }
                None => 2,
            }
        }
        Some("selftest") => {
            let id = args.get(3).cloned().unwrap_or_default();
            let n: u64 = args.get(4).and_then(|s| s.parse().ok()).unwrap_or(200);
            match lookup(&id) {
                Some(c) => selftest_determinism(c, n),
                None => 2,
            }
        }
        _ => {
            eprintln!("usage: simrun check <Cxx> <quick|thorough> | replay <file> | one <Cxx> <seed> | selftest determinism <Cxx> [n]");
            2
        }
    };
    std::process::exit(code);
}

/// Every seed is run twice (two separate batches, different worker counts);
/// full trace hashes must agree.
fn selftest_determinism(check: &'static dyn Check, n: u64) -> i32 {
    let seed = batch_seed();
    let cap = std::time::Duration::from_secs(600);
    let a = framework::run_batch(check, seed, Tier::Quick, n, cap, 0);
    std::env::set_var("VERIF_WORKERS", "3");
    let b = framework::run_batch(check, seed, Tier::Quick, n, cap, 0);
    std::env::remove_var("VERIF_WORKERS");
    let mut bad = 0;
    for (x, y) in a.records.iter().zip(b.records.iter()) {
        if x.index != y.index || x.trace_hash != y.trace_hash || x.state_hash != y.state_hash || x.sched_hash != y.sched_hash || x.violations != y.violations {
            bad += 1;
            if bad < 5 {
                println!("MISMATCH index {} seed {}: trace {} vs {}, state {} vs {}", x.index, x.seed, x.trace_hash, y.trace_hash, x.state_hash, y.state_hash);
            }
        }
    }
    println!("determinism {}: {} seeds x 2 runs ({} and {} records), mismatches {}", check.id(), n, a.records.len(), b.records.len(), bad);
    if bad > 0 || a.records.len() != b.records.len() {
        2
    } else {
        0
    }
}
