//! SimNet — the only transport the simulated system sees (packet level).
//!
//! Implements the repo's existing seams `ConnFactory` (proxy -> Redis / proxy)
//! and `RedisClientFactory` / `RedisClient` (proxy, coordinator -> anything).
//! A connection is FIFO; every message gets a latency derived from
//! (seed, channel, message index); delivery order across connections is thus a
//! pure function of the seed. Faults are directives of the plan, counted when
//! they fire.

use crate::rng::{hash3, stream_id, TraceHash};
use crate::simredis::{resp_brief, SimRedis};
use futures::channel::mpsc;
use futures::{Future, SinkExt, StreamExt};
use parking_lot::Mutex;
use std::collections::{BTreeMap, BTreeSet};
use std::net::SocketAddr;
use std::pin::Pin;
use std::sync::Arc;
use std::time::Duration;
use tokio::sync::oneshot;
use tokio::time::Instant;
use undermoon::protocol::{
    Array, BinSafeStr, BulkStr, OptionalMulti, RedisClient, RedisClientError, RedisClientFactory, Resp, RespPacket, RespVec,
};
use undermoon::proxy::backend::{BackendError, ConnFactory, ConnSink, ConnStream, CreateConnResult};
use undermoon::proxy::command::Command;
use undermoon::proxy::session::CmdHandler;

pub type DynHandler = Arc<dyn CmdHandler + Send + Sync>;

#[derive(Clone)]
pub enum Endpoint {
    Redis(Arc<Mutex<SimRedis>>),
    Proxy(DynHandler),
}

#[derive(Clone, Debug, PartialEq)]
pub enum FaultKind {
    DropRequest,
    DropReply,
    Duplicate,
    Reset,
    Stall(u64),
}

#[derive(Clone, Debug)]
pub struct FaultDirective {
    /// source label prefix ("coord", "proxy:...") the directive applies to; empty = any
    pub src_prefix: String,
    /// destination address; empty = any
    pub dst: String,
    /// n-th message (0-based) among those matching
    pub nth: u64,
    pub kind: FaultKind,
    pub matched: u64,
    pub fired: bool,
}

#[derive(Clone, Debug)]
pub struct CallRec {
    pub seq: u64,
    pub at_ms: u64,
    pub src: String,
    pub dst: String,
    pub cmd: Vec<Vec<u8>>,
    pub reply: Option<String>,
}

pub struct NetInner {
    pub seed: u64,
    pub start: Instant,
    pub endpoints: BTreeMap<String, Endpoint>,
    pub down: BTreeSet<String>,
    /// blocked (src label prefix, dst address)
    pub blocked: BTreeSet<(String, String)>,
    pub max_latency_ms: u64,
    /// heavy tail: per mille of messages whose latency is multiplied by 4..=spike_factor_max
    /// (a slow connection or a stalled peer; the connection stays FIFO)
    pub spike_pm: u64,
    pub spike_factor_max: u64,
    pub next_conn: u64,
    pub seq: u64,
    pub trace: TraceHash,
    pub sched: TraceHash,
    pub msg_index: BTreeMap<u64, u64>,
    pub faults: Vec<FaultDirective>,
    pub fault_counts: BTreeMap<String, u64>,
    /// probabilistic faults (per mille) on calls from sources with this prefix
    pub chaos_src_prefix: String,
    pub chaos_drop_req_pm: u64,
    pub chaos_drop_rep_pm: u64,
    pub chaos_dup_pm: u64,
    pub chaos_until_ms: u64,
    pub chaos_counter: u64,
    /// calls whose source label starts with one of these prefixes are recorded
    pub record_src_prefixes: Vec<String>,
    pub calls: Vec<CallRec>,
    pub delivered: u64,
    /// source labels of crashed instances: their connections are dead and they cannot connect
    pub dead_sources: BTreeSet<String>,
    /// directed faults: "the next n messages with this command name stay in flight for up to x ms
    /// longer, and somebody is told their key the moment they are sent"
    pub watches: Vec<Watch>,
    /// connection id -> source label
    pub conn_src: BTreeMap<u64, String>,
    /// control messages between proxies / from the coordinator, for post-mortem classification:
    /// (seq, source label, destination, command name, first argument)
    pub proxy_msgs: Vec<(u64, String, String, String, Vec<u8>)>,
    /// bumped every time an address is (re-)registered: connections to an older instance are dead
    pub endpoint_gen: BTreeMap<String, u64>,
}

#[derive(Clone)]
pub struct Net {
    pub inner: Arc<Mutex<NetInner>>,
}

fn cmd_of_packet(p: &RespPacket) -> Vec<Vec<u8>> {
    match p.to_resp_vec() {
        Resp::Arr(Array::Arr(v)) => v
            .into_iter()
            .map(|r| match r {
                Resp::Bulk(BulkStr::Str(s)) => s,
                Resp::Simple(s) => s,
                Resp::Integer(s) => s,
                _ => vec![],
            })
            .collect(),
        _ => vec![],
    }
}

pub fn cmd_to_resp(cmd: &[Vec<u8>]) -> RespVec {
    Resp::Arr(Array::Arr(cmd.iter().map(|c| Resp::Bulk(BulkStr::Str(c.clone()))).collect()))
}

pub fn cmd_brief(cmd: &[Vec<u8>]) -> String {
    cmd.iter()
        .take(6)
        .map(|c| {
            let s = String::from_utf8_lossy(c);
            if s.len() > 40 {
                format!("{}..", &s.chars().take(40).collect::<String>())
            } else {
                s.to_string()
            }
        })
        .collect::<Vec<_>>()
        .join(" ")
}

impl Net {
    pub fn new(seed: u64, max_latency_ms: u64) -> Self {
        Net {
            inner: Arc::new(Mutex::new(NetInner {
                seed,
                start: Instant::now(),
                endpoints: BTreeMap::new(),
                down: BTreeSet::new(),
                blocked: BTreeSet::new(),
                max_latency_ms: max_latency_ms.max(1),
                spike_pm: 0,
                spike_factor_max: 4,
                next_conn: 1,
                seq: 0,
                trace: TraceHash::new(),
                sched: TraceHash::new(),
                msg_index: BTreeMap::new(),
                faults: vec![],
                fault_counts: BTreeMap::new(),
                chaos_src_prefix: String::new(),
                chaos_drop_req_pm: 0,
                chaos_drop_rep_pm: 0,
                chaos_dup_pm: 0,
                chaos_until_ms: 0,
                chaos_counter: 0,
                record_src_prefixes: vec![],
                calls: vec![],
                delivered: 0,
                dead_sources: BTreeSet::new(),
                watches: vec![],
                conn_src: BTreeMap::new(),
                proxy_msgs: vec![],
                endpoint_gen: BTreeMap::new(),
            })),
        }
    }

    pub fn now_ms(&self) -> u64 {
        let g = self.inner.lock();
        Instant::now().duration_since(g.start).as_millis() as u64
    }

    pub fn register(&self, addr: &str, ep: Endpoint) {
        let mut g = self.inner.lock();
        g.endpoints.insert(addr.to_string(), ep);
        *g.endpoint_gen.entry(addr.to_string()).or_insert(0) += 1;
    }

    fn endpoint_generation(&self, addr: &str) -> u64 {
        self.inner.lock().endpoint_gen.get(addr).cloned().unwrap_or(0)
    }

    pub fn unregister(&self, addr: &str) {
        self.inner.lock().endpoints.remove(addr);
    }

    pub fn set_down(&self, addr: &str, down: bool) {
        let mut g = self.inner.lock();
        if down {
            g.down.insert(addr.to_string());
        } else {
            g.down.remove(addr);
        }
    }

    pub fn redis(&self, addr: &str) -> Option<Arc<Mutex<SimRedis>>> {
        match self.inner.lock().endpoints.get(addr) {
            Some(Endpoint::Redis(r)) => Some(r.clone()),
            _ => None,
        }
    }

    pub fn fault_fired(&self, kind: &str) {
        *self.inner.lock().fault_counts.entry(kind.to_string()).or_insert(0) += 1;
    }

    /// next global event sequence number; also feeds the trace hashes
    pub fn event(&self, kind: &str, chan: u64, detail: &str) -> u64 {
        let mut g = self.inner.lock();
        g.seq += 1;
        let now = Instant::now().duration_since(g.start).as_millis() as u64;
        g.trace.add_u64(now);
        g.trace.add_u64(chan);
        g.trace.add(kind.as_bytes());
        g.trace.add(detail.as_bytes());
        g.sched.add_u64(chan);
        g.sched.add(kind.as_bytes());
        // debugging aid (never set in checks): VERIF_TRACE=<substring> prints the matching events
        static TRACE: std::sync::OnceLock<Option<String>> = std::sync::OnceLock::new();
        if let Some(pat) = TRACE.get_or_init(|| std::env::var("VERIF_TRACE").ok()) {
            if detail.contains(pat.as_str()) || kind.contains(pat.as_str()) {
                eprintln!("[trace t={}ms seq={} chan={:x}] {} {}", now, g.seq, chan % 0xffff, kind, detail);
            }
        }
        g.seq
    }

    fn latency(&self, chan: u64) -> u64 {
        let mut g = self.inner.lock();
        let idx = {
            let e = g.msg_index.entry(chan).or_insert(0);
            *e += 1;
            *e
        };
        let base = 1 + hash3(g.seed, chan, idx) % g.max_latency_ms;
        if g.spike_pm > 0 && hash3(g.seed ^ 0x5b1ce, chan, idx) % 1000 < g.spike_pm {
            let f = 4 + hash3(g.seed ^ 0xfac7, chan, idx) % (g.spike_factor_max.max(4) - 3);
            *g.fault_counts.entry("latency_spike".to_string()).or_insert(0) += 1;
            return base * f;
        }
        base
    }

    pub fn add_watch(&self, w: Watch) {
        self.inner.lock().watches.push(w);
    }

    /// extra in-flight time for a message that matches a watch (the watcher is notified now)
    fn directed_delay(&self, chan: u64, src: &str, dst: &str, cmd: &[Vec<u8>]) -> u64 {
        let host = |x: &str| x.trim_start_matches("proxy:").split(':').next().unwrap_or("").to_string();
        let local = src.starts_with("proxy:") && host(src) == host(dst);
        let mut g = self.inner.lock();
        if g.watches.is_empty() || cmd.is_empty() {
            return 0;
        }
        let seed = g.seed;
        let seq = g.seq;
        let now = Instant::now().duration_since(g.start).as_millis() as u64;
        let mut extra = 0;
        let mut fired = false;
        for w in g.watches.iter_mut() {
            let name_matches = cmd[0].eq_ignore_ascii_case(w.cmd.as_bytes()) || w.also.iter().any(|n| cmd[0].eq_ignore_ascii_case(n.as_bytes()));
            if w.uses_left > 0 && now >= w.from_ms && name_matches && (local || !w.only_local) {
                w.uses_left -= 1;
                extra = extra.max(hash3(seed ^ 0xd1ec7ed, chan, seq) % (w.extra_ms_max + 1));
                if let (Some(tx), Some(key)) = (w.notify.as_ref(), cmd.get(1)) {
                    let _ = tx.unbounded_send(key.clone());
                }
                fired = true;
            }
        }
        if fired {
            *g.fault_counts.entry("directed_delay_of_watched_message".to_string()).or_insert(0) += 1;
        }
        extra
    }

    pub fn set_latency_spikes(&self, per_mille: u64, factor_max: u64) {
        let mut g = self.inner.lock();
        g.spike_pm = per_mille;
        g.spike_factor_max = factor_max;
    }

    pub fn kill_source(&self, label: &str) {
        self.inner.lock().dead_sources.insert(label.to_string());
    }

    fn reachable(&self, src: &str, dst: &str) -> bool {
        let g = self.inner.lock();
        if g.down.contains(dst) {
            return false;
        }
        if g.dead_sources.contains(src) {
            return false;
        }
        for (sp, d) in g.blocked.iter() {
            if d == dst && src.starts_with(sp.as_str()) {
                return false;
            }
        }
        // a proxy that is down cannot reach out either
        for d in g.down.iter() {
            if src == format!("proxy:{}", d) || src.starts_with(&format!("proxy:{}#", d)) {
                return false;
            }
        }
        true
    }

    /// decide the fault (if any) for the next message from `src` to `dst`
    pub fn fault_for_pub(&self, src: &str, dst: &str) -> Option<FaultKind> {
        self.fault_for(src, dst)
    }

    fn fault_for(&self, src: &str, dst: &str) -> Option<FaultKind> {
        let mut g = self.inner.lock();
        let mut hit = None;
        for f in g.faults.iter_mut() {
            if f.fired {
                continue;
            }
            if !src.starts_with(f.src_prefix.as_str()) {
                continue;
            }
            if !f.dst.is_empty() && f.dst != dst {
                continue;
            }
            if f.matched == f.nth {
                f.fired = true;
                hit = Some(f.kind.clone());
                f.matched += 1;
                break;
            }
            f.matched += 1;
        }
        if hit.is_none() && !g.chaos_src_prefix.is_empty() && src.starts_with(g.chaos_src_prefix.as_str()) {
            let now = Instant::now().duration_since(g.start).as_millis() as u64;
            if now < g.chaos_until_ms {
                g.chaos_counter += 1;
                let r = hash3(g.seed, stream_id("chaos"), g.chaos_counter) % 1000;
                if r < g.chaos_drop_req_pm {
                    hit = Some(FaultKind::DropRequest);
                } else if r < g.chaos_drop_req_pm + g.chaos_drop_rep_pm {
                    hit = Some(FaultKind::DropReply);
                } else if r < g.chaos_drop_req_pm + g.chaos_drop_rep_pm + g.chaos_dup_pm {
                    hit = Some(FaultKind::Duplicate);
                }
            }
        }
        if let Some(k) = hit.as_ref() {
            let name = match k {
                FaultKind::DropRequest => "msg_drop_request",
                FaultKind::DropReply => "msg_drop_reply",
                FaultKind::Duplicate => "msg_duplicate",
                FaultKind::Reset => "conn_reset",
                FaultKind::Stall(_) => "conn_stall",
            };
            *g.fault_counts.entry(name.to_string()).or_insert(0) += 1;
        }
        hit
    }

    fn record_call(&self, src: &str, dst: &str, cmd: &[Vec<u8>]) -> Option<usize> {
        let mut g = self.inner.lock();
        if !g.record_src_prefixes.iter().any(|p| src.starts_with(p.as_str())) {
            return None;
        }
        let seq = g.seq;
        let at = Instant::now().duration_since(g.start).as_millis() as u64;
        g.calls.push(CallRec {
            seq,
            at_ms: at,
            src: src.to_string(),
            dst: dst.to_string(),
            cmd: cmd.to_vec(),
            reply: None,
        });
        Some(g.calls.len() - 1)
    }

    fn record_reply(&self, idx: Option<usize>, reply: &RespVec) {
        if let Some(i) = idx {
            let mut g = self.inner.lock();
            if let Some(c) = g.calls.get_mut(i) {
                c.reply = Some(resp_brief(reply));
            }
        }
    }

    /// Opens a FIFO connection from `src` to `dst`.
    pub fn connect(&self, src: &str, dst: &str) -> Result<Conn, std::io::Error> {
        if !self.reachable(src, dst) {
            self.fault_fired("connect_refused");
            self.event("connect_refused", 0, dst);
            return Err(std::io::Error::new(std::io::ErrorKind::ConnectionRefused, "unreachable"));
        }
        // (the guard must be gone before `event` takes the lock again)
        let found = self.inner.lock().endpoints.get(dst).cloned();
        let ep = match found {
            Some(e) => e,
            None => {
                self.event("connect_nohost", 0, dst);
                return Err(std::io::Error::new(std::io::ErrorKind::ConnectionRefused, "no such endpoint"));
            }
        };
        let id = {
            let mut g = self.inner.lock();
            let id = g.next_conn;
            g.next_conn += 1;
            g.conn_src.insert(id, src.to_string());
            id
        };
        let chan = hash3(stream_id(src), stream_id(dst), id);
        let ep_gen = self.endpoint_generation(dst);
        let (req_tx, req_rx) = mpsc::unbounded::<Req>();
        let (mid_tx, mid_rx) = mpsc::unbounded::<Mid>();
        let net = self.clone();
        let src_s = src.to_string();
        let dst_s = dst.to_string();
        self.event("connect", chan, dst);
        tokio::spawn(deliverer(net.clone(), ep, ep_gen, chan, id, src_s.clone(), dst_s.clone(), req_rx, mid_tx));
        tokio::spawn(replier(net, chan, mid_rx));
        Ok(Conn { tx: req_tx })
    }
}

struct Req {
    cmd: Vec<Vec<u8>>,
    packet: Option<RespPacket>,
    sent_at: Instant,
    reply: oneshot::Sender<Result<RespVec, ()>>,
}

struct Mid {
    fut: Pin<Box<dyn Future<Output = Result<RespVec, ()>> + Send>>,
    reply: oneshot::Sender<Result<RespVec, ()>>,
    drop_reply: bool,
    call_idx: Option<usize>,
}

pub struct Watch {
    /// command names (upper case), any of them
    pub cmd: String,
    pub also: Vec<String>,
    /// active from this virtual time on
    pub from_ms: u64,
    pub uses_left: u32,
    pub extra_ms_max: u64,
    /// only messages a proxy sends to a Redis node on its own host (on-demand pulls, forwarded commands)
    pub only_local: bool,
    pub notify: Option<mpsc::UnboundedSender<Vec<u8>>>,
}

#[derive(Clone)]
pub struct Conn {
    tx: mpsc::UnboundedSender<Req>,
}

impl Conn {
    pub fn send(&self, cmd: Vec<Vec<u8>>, packet: Option<RespPacket>) -> oneshot::Receiver<Result<RespVec, ()>> {
        let (tx, rx) = oneshot::channel();
        let _ = self.tx.unbounded_send(Req {
            cmd,
            packet,
            sent_at: Instant::now(),
            reply: tx,
        });
        rx
    }
}

fn exec_at(net: &Net, ep: &Endpoint, dst: &str, chan: u64, conn_id: u64, cmd: &[Vec<u8>], packet: Option<RespPacket>) -> Pin<Box<dyn Future<Output = Result<RespVec, ()>> + Send>> {
    match ep {
        Endpoint::Redis(r) => {
            let seq = net.event("deliver", chan, &cmd_brief(cmd));
            let now = net.now_ms();
            let reply = r.lock().exec(now, seq, conn_id, cmd);
            Box::pin(async move { Ok(reply) })
        }
        Endpoint::Proxy(h) => {
            let seq = net.event("deliver_proxy", chan, &cmd_brief(cmd));
            if let Some(name) = cmd.first() {
                let (is_sync, is_ctl) = (name.eq_ignore_ascii_case(b"UMSYNC"), name.eq_ignore_ascii_case(b"UMCTL"));
                if is_sync || is_ctl {
                    let mut g = net.inner.lock();
                    let src = g.conn_src.get(&conn_id).cloned().unwrap_or_default();
                    let (n, a) = if is_sync { ("UMSYNC".to_string(), cmd.get(1).cloned().unwrap_or_default()) } else { (format!("UMCTL {}", cmd.get(1).map(|x| String::from_utf8_lossy(x).to_uppercase()).unwrap_or_default()), cmd.get(3).cloned().unwrap_or_default()) };
                    g.proxy_msgs.push((seq, src, dst.to_string(), n, a));
                }
            }
            let pkt = packet.unwrap_or_else(|| RespPacket::from_resp_vec(cmd_to_resp(cmd)));
            let h2 = h.clone();
            let (tx, rx) = oneshot::channel::<Result<RespVec, ()>>();
            // the handler is invoked by a task spawned at delivery time (FIFO run queue keeps delivery order)
            tokio::spawn(async move {
                let r = match h2.handle_cmd(Command::new(Box::new(pkt))).await {
                    Ok(reply) => Ok(reply.into_resp_vec()),
                    Err(_) => Err(()),
                };
                let _ = tx.send(r);
            });
            Box::pin(async move { rx.await.unwrap_or(Err(())) })
        }
    }
}

#[allow(clippy::too_many_arguments)]
async fn deliverer(net: Net, ep: Endpoint, ep_gen: u64, chan: u64, conn_id: u64, src: String, dst: String, mut rx: mpsc::UnboundedReceiver<Req>, mid: mpsc::UnboundedSender<Mid>) {
    let mut last = Instant::now();
    while let Some(req) = rx.next().await {
        let lat = net.latency(chan) + net.directed_delay(chan, &src, &dst, &req.cmd);
        let mut at = req.sent_at + Duration::from_millis(lat);
        if at < last {
            at = last;
        }
        last = at;
        tokio::time::sleep_until(at).await;
        if net.endpoint_generation(&dst) != ep_gen {
            // the peer process was restarted: this connection is gone
            net.event("lost_peer_restarted", chan, &cmd_brief(&req.cmd));
            let _ = req.reply.send(Err(()));
            break;
        }
        if !net.reachable(&src, &dst) {
            net.fault_fired("msg_lost_unreachable");
            net.event("lost", chan, &cmd_brief(&req.cmd));
            let _ = req.reply.send(Err(()));
            // the connection is dead
            break;
        }
        // the endpoint may have been replaced (proxy restart): connections to the old instance die
        let fault = net.fault_for(&src, &dst);
        let call_idx = net.record_call(&src, &dst, &req.cmd);
        match fault {
            Some(FaultKind::DropRequest) => {
                net.event("fault_drop_request", chan, &cmd_brief(&req.cmd));
                let _ = req.reply.send(Err(()));
                break;
            }
            Some(FaultKind::Reset) => {
                net.event("fault_reset", chan, &cmd_brief(&req.cmd));
                let _ = req.reply.send(Err(()));
                break;
            }
            Some(FaultKind::Stall(ms)) => {
                net.event("fault_stall", chan, &cmd_brief(&req.cmd));
                tokio::time::sleep(Duration::from_millis(ms)).await;
                last = Instant::now();
                let fut = exec_at(&net, &ep, &dst, chan, conn_id, &req.cmd, req.packet);
                let _ = mid.unbounded_send(Mid { fut, reply: req.reply, drop_reply: false, call_idx });
            }
            Some(FaultKind::Duplicate) => {
                net.event("fault_duplicate", chan, &cmd_brief(&req.cmd));
                let fut = exec_at(&net, &ep, &dst, chan, conn_id, &req.cmd, req.packet.clone());
                let _ = mid.unbounded_send(Mid { fut, reply: req.reply, drop_reply: false, call_idx });
                // the duplicate is delivered a little later; its reply is discarded
                let fut2 = exec_at(&net, &ep, &dst, chan, conn_id, &req.cmd, req.packet);
                tokio::spawn(async move {
                    let _ = fut2.await;
                });
            }
            Some(FaultKind::DropReply) => {
                net.event("fault_drop_reply", chan, &cmd_brief(&req.cmd));
                let fut = exec_at(&net, &ep, &dst, chan, conn_id, &req.cmd, req.packet);
                let _ = mid.unbounded_send(Mid { fut, reply: req.reply, drop_reply: true, call_idx });
            }
            None => {
                let fut = exec_at(&net, &ep, &dst, chan, conn_id, &req.cmd, req.packet);
                let _ = mid.unbounded_send(Mid { fut, reply: req.reply, drop_reply: false, call_idx });
            }
        }
        net.inner.lock().delivered += 1;
    }
    // dropping `mid` and pending reply senders signals a closed connection
}

async fn replier(net: Net, chan: u64, mut rx: mpsc::UnboundedReceiver<Mid>) {
    let mut last = Instant::now();
    let rchan = chan ^ 0x5555_5555_5555_5555;
    while let Some(m) = rx.next().await {
        let res = m.fut.await;
        if let Ok(r) = res.as_ref() {
            net.record_reply(m.call_idx, r);
        }
        if m.drop_reply {
            let _ = m.reply.send(Err(()));
            break;
        }
        let lat = net.latency(rchan);
        let mut at = Instant::now() + Duration::from_millis(lat);
        if at < last {
            at = last;
        }
        last = at;
        tokio::time::sleep_until(at).await;
        net.event("reply", rchan, "");
        let _ = m.reply.send(res);
    }
}

// ---------------------------------------------------------------------------
// ConnFactory (proxy -> backend / peer proxy)

pub struct SimConnFactory {
    pub net: Net,
    pub src: String,
}

impl ConnFactory for SimConnFactory {
    type Pkt = RespPacket;

    fn create_conn(&self, addr: SocketAddr) -> Pin<Box<dyn Future<Output = CreateConnResult<Self::Pkt>> + Send>> {
        let net = self.net.clone();
        let src = self.src.clone();
        Box::pin(async move {
            // connection establishment costs one latency unit
            tokio::time::sleep(Duration::from_millis(1)).await;
            let conn = net.connect(&src, &addr.to_string()).map_err(BackendError::Io)?;
            let (out_tx, out_rx) = mpsc::unbounded::<Result<RespPacket, BackendError>>();
            let (in_tx, mut in_rx) = mpsc::unbounded::<RespPacket>();
            // forwarder: keeps reply order = request order
            tokio::spawn(async move {
                let (ord_tx, mut ord_rx) = mpsc::unbounded::<oneshot::Receiver<Result<RespVec, ()>>>();
                let out2 = out_tx.clone();
                tokio::spawn(async move {
                    while let Some(rx) = ord_rx.next().await {
                        match rx.await {
                            Ok(Ok(resp)) => {
                                if out2.unbounded_send(Ok(RespPacket::from_resp_vec(resp))).is_err() {
                                    break;
                                }
                            }
                            _ => {
                                let _ = out2.unbounded_send(Err(BackendError::Io(std::io::Error::new(std::io::ErrorKind::ConnectionReset, "sim connection closed"))));
                                break;
                            }
                        }
                    }
                });
                while let Some(pkt) = in_rx.next().await {
                    let cmd = cmd_of_packet(&pkt);
                    let rx = conn.send(cmd, Some(pkt));
                    if ord_tx.unbounded_send(rx).is_err() {
                        break;
                    }
                }
                drop(out_tx);
            });
            let sink: ConnSink<RespPacket> = Box::pin(in_tx.sink_map_err(|_| BackendError::Io(std::io::Error::new(std::io::ErrorKind::BrokenPipe, "sim connection closed"))));
            let stream: ConnStream<RespPacket> = Box::pin(out_rx);
            Ok((sink, stream))
        })
    }
}

// ---------------------------------------------------------------------------
// RedisClientFactory / RedisClient (proxy or coordinator -> anything)

tokio::task_local! {
    /// which coordinator loop the current task is (set by the harness when it spawns the loops)
    pub static LOOP_KIND: &'static str;
}

pub struct SimClientFactory {
    pub net: Net,
    pub src: String,
    pub timeout: Duration,
}

pub struct SimRedisClient {
    conn: Conn,
    timeout: Duration,
    err: bool,
}

impl RedisClientFactory for SimClientFactory {
    type Client = SimRedisClient;

    fn create_client<'s>(&'s self, address: String) -> Pin<Box<dyn Future<Output = Result<Self::Client, RedisClientError>> + Send + 's>> {
        Box::pin(async move {
            tokio::time::sleep(Duration::from_millis(1)).await;
            let src = match LOOP_KIND.try_with(|k| *k) {
                Ok(kind) => format!("{}/{}", self.src, kind),
                Err(_) => self.src.clone(),
            };
            let conn = self.net.connect(&src, &address).map_err(RedisClientError::Io)?;
            Ok(SimRedisClient {
                conn,
                timeout: self.timeout,
                err: false,
            })
        })
    }
}

impl RedisClient for SimRedisClient {
    fn execute<'s>(&'s mut self, command: OptionalMulti<Vec<BinSafeStr>>) -> Pin<Box<dyn Future<Output = Result<OptionalMulti<RespVec>, RedisClientError>> + Send + 's>> {
        Box::pin(async move {
            if self.err {
                return Err(RedisClientError::StaleClient);
            }
            self.err = true;
            let timeout = self.timeout;
            let res = match command {
                OptionalMulti::Single(cmd) => {
                    let rx = self.conn.send(cmd, None);
                    match tokio::time::timeout(timeout, rx).await {
                        Err(_) => Err(RedisClientError::Timeout),
                        Ok(Ok(Ok(r))) => Ok(OptionalMulti::Single(r)),
                        Ok(_) => Err(RedisClientError::Io(std::io::Error::new(std::io::ErrorKind::ConnectionReset, "sim connection closed"))),
                    }
                }
                OptionalMulti::Multi(cmds) => {
                    let rxs: Vec<_> = cmds.into_iter().map(|c| self.conn.send(c, None)).collect();
                    let fut = async move {
                        let mut out = vec![];
                        for rx in rxs {
                            match rx.await {
                                Ok(Ok(r)) => out.push(r),
                                _ => return Err(RedisClientError::Io(std::io::Error::new(std::io::ErrorKind::ConnectionReset, "sim connection closed"))),
                            }
                        }
                        Ok(OptionalMulti::Multi(out))
                    };
                    match tokio::time::timeout(timeout, fut).await {
                        Err(_) => Err(RedisClientError::Timeout),
                        Ok(r) => r,
                    }
                }
            };
            self.err = res.is_err();
            res
        })
    }
}
