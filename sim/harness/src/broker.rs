//! Engine E1 — broker-sim: the real `MemBrokerService` (MemoryStorage) driven by
//! seeded operation histories with failovers, clock jumps, crash/restart from
//! snapshots; oracles evaluated after every single operation.
//!
//! Serves C01 C04 C06 C10 C12 C13(E1 part) C18.

use crate::framework::{Check, Meta, RunRecord, Tier, Violation};
use crate::rng::{Rng, TraceHash};
use crate::sandbox::{ChildLimits, ExitKind};
use crate::views;
use chrono::{DateTime, NaiveDateTime, Utc};
use futures::executor::block_on;
use serde_derive::{Deserialize, Serialize};
use serde_json::{json, Value};
use std::collections::{BTreeMap, BTreeSet};
use std::convert::TryFrom;
use std::pin::Pin;
use std::sync::atomic::{AtomicI64, AtomicU64, Ordering};
use std::sync::Arc;
use std::time::Duration;
use undermoon::broker::{
    MemBrokerConfig, MemBrokerService, MetaPersistence, MetaReplicator, MetaStore, MetaStoreError,
    MetaSyncError, ProxyResourcePayload, StorageConfig,
};
use undermoon::common::cluster::{
    Cluster, ClusterName, MigrationTaskMeta, Proxy, Range, RangeList, Role, SlotRange, SlotRangeTag,
};
use undermoon::common::config::ClusterConfig;

// ---------------------------------------------------------------------------
// virtual wall clock (hook H3) and injected proxy epoch (hook H7)

pub static CLOCK_SECS: AtomicI64 = AtomicI64::new(1_700_000_000);
/// sub-second part of the virtual wall clock in ms (may exceed 999; the clock is CLOCK_SECS*1000 + CLOCK_SUB_MS):
/// report times are stored floored to whole seconds by the broker, so ttl boundaries need a finer clock
pub static CLOCK_SUB_MS: AtomicI64 = AtomicI64::new(0);
pub fn clock_ms() -> i64 {
    CLOCK_SECS.load(Ordering::SeqCst) * 1000 + CLOCK_SUB_MS.load(Ordering::SeqCst)
}
pub static INJECTED_MAX_EPOCH: AtomicU64 = AtomicU64::new(u64::MAX);

/// when set, the broker's wall clock follows the simulated (tokio, paused) clock
pub static SIM_CLOCK_START: parking_lot::Mutex<Option<tokio::time::Instant>> = parking_lot::Mutex::new(None);

fn sim_utc_now() -> DateTime<Utc> {
    let mut ms = clock_ms();
    if let Some(t0) = *SIM_CLOCK_START.lock() {
        ms += tokio::time::Instant::now().duration_since(t0).as_secs() as i64 * 1000;
    }
    DateTime::<Utc>::from_utc(NaiveDateTime::from_timestamp(ms.div_euclid(1000), (ms.rem_euclid(1000) * 1_000_000) as u32), Utc)
}
fn sim_max_epoch() -> Option<u64> {
    let v = INJECTED_MAX_EPOCH.load(Ordering::SeqCst);
    if v == u64::MAX {
        None
    } else {
        Some(v)
    }
}
pub fn install_hooks() {
    undermoon::common::verif::register_utc_now(sim_utc_now);
    undermoon::common::verif::register_max_epoch(sim_max_epoch);
}

// ---------------------------------------------------------------------------
// simulated persistence / replication seams

pub struct SimDisk {
    pub last: parking_lot::Mutex<Option<MetaStore>>,
    pub writes: AtomicU64,
}
impl MetaPersistence for SimDisk {
    fn store<'s>(
        &'s self,
        store: MetaStore,
    ) -> Pin<Box<dyn futures::Future<Output = Result<(), MetaSyncError>> + Send + 's>> {
        *self.last.lock() = Some(store);
        self.writes.fetch_add(1, Ordering::SeqCst);
        Box::pin(async { Ok(()) })
    }
    fn load<'s>(
        &'s self,
    ) -> Pin<Box<dyn futures::Future<Output = Result<Option<MetaStore>, MetaSyncError>> + Send + 's>>
    {
        let v = self.last.lock().clone();
        Box::pin(async move { Ok(v) })
    }
}
pub struct NullReplicator;
impl MetaReplicator for NullReplicator {
    fn sync_meta<'s>(
        &'s self,
        _store: Arc<MetaStore>,
    ) -> Pin<Box<dyn futures::Future<Output = Result<(), MetaSyncError>> + Send + 's>> {
        Box::pin(async { Ok(()) })
    }
}

// ---------------------------------------------------------------------------
// plan

#[derive(Serialize, Deserialize, Clone, Debug)]
pub struct Cfg {
    pub ordered: bool,
    pub migration_limit: u64,
    pub quorum: u64,
    pub ttl: u64,
    /// proxies per host
    pub hosts: Vec<usize>,
}

#[derive(Serialize, Deserialize, Clone, Debug)]
#[serde(tag = "op")]
pub enum Op {
    AddProxy { h: usize, i: usize },
    RemoveProxy { pick: u64 },
    AddCluster { c: usize, nodes: usize },
    RemoveCluster { c: usize },
    AddNodes { c: usize, n: usize },
    ScaleUp { c: usize, n: usize },
    Migrate { c: usize },
    ScaleDown { c: usize, n: usize },
    Commit { c: usize, pick: u64, variant: u8 },
    DeleteFree { c: usize },
    Failover { pick: u64, in_cluster: bool },
    Report { pick: u64, r: u8, unknown: bool },
    GetFailures,
    Balance { c: usize },
    Config { c: usize, k: u8, v: u8 },
    Bump { delta: u64 },
    Clock {
        secs: i64,
        #[serde(default)]
        ms: i64,
    },
    /// C10: commit visible migrations in random order (with interleavings) until none is left
    Drain { c: usize, seed: u64, chaos: u8 },
    /// C10: resize to `chunks` chunks (up or down), as the two-phase API does
    Resize { c: usize, chunks: usize },
}

pub fn proxy_addr(h: usize, i: usize) -> String {
    format!("10.0.{}.1:{}", h, 7000 + i)
}
pub fn host_name(h: usize) -> String {
    format!("10.0.{}.1", h)
}
pub fn node_addrs(h: usize, i: usize) -> [String; 2] {
    [
        format!("10.0.{}.1:{}", h, 6000 + 2 * i),
        format!("10.0.{}.1:{}", h, 6001 + 2 * i),
    ]
}
fn cluster_name(c: usize) -> String {
    format!("c{}", c)
}

fn payload(h: usize, i: usize, index: Option<usize>) -> ProxyResourcePayload {
    let v = json!({
        "proxy_address": proxy_addr(h, i),
        "nodes": node_addrs(h, i),
        "host": host_name(h),
        "index": index,
    });
    serde_json::from_value(v).expect("payload")
}

pub fn new_service(cfg: &Cfg, last: Option<MetaStore>) -> Result<MemBrokerService, MetaStoreError> {
    let config = MemBrokerConfig {
        address: "127.0.0.1:7799".to_string(),
        failure_ttl: cfg.ttl,
        failure_quorum: cfg.quorum,
        migration_limit: cfg.migration_limit,
        recover_from_meta_file: false,
        meta_filename: "metadata".to_string(),
        auto_update_meta_file: false,
        update_meta_file_interval: None,
        replica_addresses: Arc::new(arc_swap::ArcSwap::new(Arc::new(vec![]))),
        sync_meta_interval: None,
        enable_ordered_proxy: cfg.ordered,
        storage: StorageConfig::Memory,
        debug: false,
    };
    let disk = Arc::new(SimDisk {
        last: parking_lot::Mutex::new(None),
        writes: AtomicU64::new(0),
    });
    MemBrokerService::new(
        config,
        ClusterConfig::default(),
        disk,
        Arc::new(NullReplicator),
        last,
    )
}

// ---------------------------------------------------------------------------
// helpers on served values

fn canon_proxy(p: &Proxy) -> String {
    // canonical content of a per-proxy view without its epoch
    let mut v = serde_json::to_value(p).unwrap_or(Value::Null);
    if let Some(o) = v.as_object_mut() {
        o.remove("epoch");
        if let Some(nodes) = o.get_mut("nodes").and_then(|n| n.as_array_mut()) {
            nodes.sort_by_key(|n| n.get("address").map(|a| a.to_string()).unwrap_or_default());
        }
        if let Some(peers) = o.get_mut("peers").and_then(|n| n.as_array_mut()) {
            for p in peers.iter_mut() {
                if let Some(sl) = p.get_mut("slots").and_then(|s| s.as_array_mut()) {
                    sl.sort_by_key(|s| s.to_string());
                }
            }
            peers.sort_by_key(|n| n.get("proxy_address").map(|a| a.to_string()).unwrap_or_default());
        }
    }
    v.to_string()
}

fn store_fingerprint(store: &MetaStore, with_epoch: bool) -> String {
    // serde_json::Value maps are ordered (BTreeMap), which removes HashMap order noise
    let mut v = serde_json::to_value(store).unwrap_or(Value::Null);
    if !with_epoch {
        if let Some(o) = v.as_object_mut() {
            o.remove("global_epoch");
        }
    }
    v.to_string()
}

fn visible_tasks(c: &Cluster) -> Vec<MigrationTaskMeta> {
    let mut out = vec![];
    for n in c.get_nodes() {
        for sr in n.get_slots() {
            if let SlotRangeTag::Migrating(_) = sr.tag {
                out.push(MigrationTaskMeta {
                    cluster_name: c.get_name().clone(),
                    slot_range: sr.clone(),
                });
            }
        }
    }
    out
}

fn stored_migrating(store: &MetaStore, cname: &str) -> bool {
    ClusterName::try_from(cname)
        .ok()
        .and_then(|n| store.clusters.get(&n).map(|c| c.is_migrating()))
        .unwrap_or(false)
}

// ---------------------------------------------------------------------------
// the world

pub struct World {
    pub prop: &'static str,
    pub cfg: Cfg,
    pub svc: MemBrokerService,
    pub rec: RunRecord,
    pub trace: TraceHash,
    // C04 model
    last_served: BTreeMap<(String, u64), (u64, String)>,
    last_global: u64,
    max_epoch_ever: u64,
    served_epochs: BTreeMap<String, Vec<u64>>,
    // C18 model: addr -> reporter -> latest report time
    reports: BTreeMap<String, BTreeMap<String, i64>>,
    committed: Vec<MigrationTaskMeta>,
    snapshots: Vec<MetaStore>,
    ops_done: u64,
    failovers_checked: u64,
    mid_migration_ops: u64,
    /// harness model: proxies the plan has failed and not re-registered since
    down: BTreeSet<String>,
    /// proxies that were failed over while free (the broker marks them failed) and have not registered again
    down_free: BTreeSet<String>,
}

const LIMITS: [u64; 4] = [0, 1, 2, 3];

impl World {
    pub fn new(prop: &'static str, cfg: Cfg) -> Self {
        let svc = new_service(&cfg, None).expect("service");
        World {
            prop,
            cfg,
            svc,
            rec: RunRecord::default(),
            trace: TraceHash::new(),
            last_served: BTreeMap::new(),
            last_global: 0,
            max_epoch_ever: 0,
            served_epochs: BTreeMap::new(),
            reports: BTreeMap::new(),
            committed: vec![],
            snapshots: vec![],
            ops_done: 0,
            failovers_checked: 0,
            mid_migration_ops: 0,
            down: BTreeSet::new(),
            down_free: BTreeSet::new(),
        }
    }

    fn store(&self) -> MetaStore {
        block_on(self.svc.get_all_data()).expect("get_all_data")
    }

    fn viol(&mut self, prop: &str, tag: &str, detail: String) {
        if prop == self.prop {
            self.rec.violate(Violation::new(prop, tag, detail));
        }
    }

    fn sorted_proxies(store: &MetaStore) -> Vec<String> {
        let mut v: Vec<String> = store.all_proxies.keys().cloned().collect();
        v.sort();
        v
    }

    // ------------------------------------------------------------------
    // oracles evaluated after every operation

    fn oracle_c01(&mut self, store: &MetaStore, opdesc: &str) {
        let mut names: Vec<String> = store.clusters.keys().map(|n| n.to_string()).collect();
        names.sort();
        let proxies = Self::sorted_proxies(store);
        let mut limits: Vec<u64> = LIMITS.to_vec();
        if !limits.contains(&self.cfg.migration_limit) {
            limits.push(self.cfg.migration_limit);
        }
        for l in limits {
            let mut cviews: BTreeMap<String, (Cluster, Vec<views::Seg>)> = BTreeMap::new();
            for name in names.iter() {
                let c = match store.get_cluster_by_name(name, l) {
                    Some(c) => c,
                    None => {
                        self.viol("C01", "cluster-missing", format!("after {}: cluster {} not served under limit {}", opdesc, name, l));
                        continue;
                    }
                };
                match views::check_cluster_view(&c) {
                    Ok(segs) => {
                        cviews.insert(name.clone(), (c, segs));
                    }
                    Err(e) => {
                        self.viol("C01", "cluster-view", format!("after {}: cluster {} limit {}: {}", opdesc, name, l, e));
                    }
                }
            }
            for addr in proxies.iter() {
                let p = match store.get_proxy_by_address(addr, l) {
                    Some(p) => p,
                    None => {
                        self.viol("C01", "proxy-missing", format!("after {}: registered proxy {} not served", opdesc, addr));
                        continue;
                    }
                };
                let cv = p.get_cluster_name().and_then(|n| cviews.get(n.as_str()));
                let tagged = p.get_cluster_name().is_some();
                if tagged && cv.is_none() {
                    // the cluster view itself was bad: already reported
                    continue;
                }
                if let Err(e) = views::check_proxy_view(&p, cv.map(|x| &x.0), cv.map(|x| x.1.as_slice())) {
                    self.viol("C01", "proxy-view", format!("after {}: limit {}: {}", opdesc, l, e));
                }
            }
        }
        // the service's own configured-limit path must serve the same thing
        for name in names.iter() {
            let a = block_on(self.svc.get_cluster_by_name(name)).ok().flatten();
            let b = store.get_cluster_by_name(name, self.cfg.migration_limit);
            let sa = a.as_ref().map(|c| serde_json::to_string(c).unwrap_or_default());
            let sb = b.as_ref().map(|c| serde_json::to_string(c).unwrap_or_default());
            if sa != sb {
                self.viol("C01", "service-path", format!("after {}: service view of {} differs from store view", opdesc, name));
            }
        }
    }

    fn oracle_c04(&mut self, store: &MetaStore, opdesc: &str, restored: bool) {
        let g = store.get_global_epoch();
        if g < self.last_global && !restored {
            self.viol("C04", "global-regress", format!("after {}: global epoch {} -> {}", opdesc, self.last_global, g));
        }
        self.last_global = g;
        self.max_epoch_ever = self.max_epoch_ever.max(g);
        let proxies = Self::sorted_proxies(store);
        for addr in proxies.iter() {
            for l in LIMITS.iter() {
                let p = match store.get_proxy_by_address(addr, *l) {
                    Some(p) => p,
                    None => continue,
                };
                let e = p.get_epoch();
                self.max_epoch_ever = self.max_epoch_ever.max(e);
                if *l == self.cfg.migration_limit.min(3) {
                    let v = self.served_epochs.entry(addr.clone()).or_default();
                    if v.last() != Some(&e) {
                        v.push(e);
                    }
                }
                let canon = canon_proxy(&p);
                let key = (addr.clone(), *l);
                if let Some((pe, pc)) = self.last_served.get(&key) {
                    if !restored {
                        if e < *pe {
                            self.viol("C04", "proxy-epoch-regress", format!("after {}: epoch served for {} (limit {}) went {} -> {}", opdesc, addr, l, pe, e));
                        } else if e == *pe && &canon != pc {
                            self.viol(
                                "C04",
                                "content-changed-same-epoch",
                                format!("after {}: view of {} (limit {}) changed but epoch stayed {}: before={} after={}", opdesc, addr, l, e, short(pc), short(&canon)),
                            );
                        }
                    }
                }
                self.last_served.insert(key, (e, canon));
            }
        }
    }

    fn oracle_c12(&mut self, store: &MetaStore, opdesc: &str) {
        let mut seen: BTreeMap<String, (String, usize, usize)> = BTreeMap::new();
        for (cname, c) in store.clusters.iter() {
            for (ci, chunk) in c.chunks.iter().enumerate() {
                for (pi, addr) in chunk.proxy_addresses.iter().enumerate() {
                    if let Some(prev) = seen.insert(addr.clone(), (cname.to_string(), ci, pi)) {
                        self.viol("C12", "proxy-in-two-positions", format!("after {}: {} is in {:?} and in ({}, {}, {})", opdesc, addr, prev, cname, ci, pi));
                    }
                    match store.all_proxies.get(addr) {
                        None => self.viol("C12", "member-not-registered", format!("after {}: {} is in cluster {} but not registered", opdesc, addr, cname)),
                        Some(r) => {
                            if r.cluster.as_ref().map(|n| n.to_string()) != Some(cname.to_string()) {
                                self.viol("C12", "member-tag-mismatch", format!("after {}: {} is in cluster {} but tagged {:?}", opdesc, addr, cname, r.cluster));
                            }
                        }
                    }
                }
            }
        }
        for (addr, r) in store.all_proxies.iter() {
            if r.cluster.is_some() && !seen.contains_key(addr) {
                self.viol("C12", "free-pool-mismatch", format!("after {}: {} tagged {:?} but in no chunk", opdesc, addr, r.cluster));
            }
        }
        // the free pool: registered, in no cluster, not failed; a proxy the harness saw failing over
        // stays out of it until it registers again
        let members: BTreeSet<String> = seen.keys().cloned().collect();
        for hp in store.get_free_proxies() {
            let a = hp.proxy_address;
            if members.contains(&a) {
                self.viol("C12", "free-pool-mismatch", format!("after {}: {} is in a cluster and in the free pool", opdesc, a));
            }
            if !store.all_proxies.contains_key(&a) {
                self.viol("C12", "free-pool-mismatch", format!("after {}: {} is in the free pool but not registered", opdesc, a));
            }
            if self.down_free.contains(&a) {
                self.viol("C12", "failed-proxy-in-free-pool", format!("after {}: {} was failed over and has not registered again, but is offered as a free proxy", opdesc, a));
            }
        }
        match block_on(self.svc.check_metadata()) {
            Ok(None) => {}
            Ok(Some(_)) => self.viol("C12", "check-metadata", format!("after {}: broker's own consistency check fails", opdesc)),
            Err(e) => self.viol("C12", "check-metadata-err", format!("after {}: {:?}", opdesc, e)),
        }
    }

    fn oracle_repl_pairs(&mut self, store: &MetaStore, opdesc: &str) {
        for name in store.clusters.keys() {
            if let Some(c) = store.get_cluster_by_name(name.as_str(), 0) {
                if let Err(e) = views::check_repl_pairs(&c) {
                    self.viol("C06", "repl-pairs", format!("after {}: {}", opdesc, e));
                }
            }
        }
    }

    fn after_op(&mut self, opdesc: &str, restored: bool) {
        let store = self.store();
        self.ops_done += 1;
        if store.clusters.values().any(|c| c.is_migrating()) {
            self.mid_migration_ops += 1;
        }
        match self.prop {
            "C01" => self.oracle_c01(&store, opdesc),
            "C04" | "C13" => self.oracle_c04(&store, opdesc, restored),
            "C12" => self.oracle_c12(&store, opdesc),
            "C06" => self.oracle_repl_pairs(&store, opdesc),
            _ => {}
        }
        self.trace.add(opdesc.as_bytes());
        self.trace.add_u64(store.get_global_epoch());
        if self.prop == "C13" {
            self.snapshots.push(store);
        }
    }

    // ------------------------------------------------------------------
    // operations

    fn free_healthy(store: &MetaStore) -> Vec<(String, String)> {
        let mut v = vec![];
        for (a, r) in store.all_proxies.iter() {
            if r.cluster.is_none() && !store.failed_proxies.contains(a) && !store.failures.contains_key(a) {
                v.push((a.clone(), r.host.clone()));
            }
        }
        v.sort();
        v
    }

    fn check_allocation(&mut self, before: &MetaStore, after: &MetaStore, cname: &str, opdesc: &str) {
        // newly allocated proxies of cluster `cname`
        let name = match ClusterName::try_from(cname) {
            Ok(n) => n,
            Err(_) => return,
        };
        let old: BTreeSet<String> = before.clusters.get(&name).map(|c| c.get_proxy_addresses().into_iter().collect()).unwrap_or_default();
        let new_c = match after.clusters.get(&name) {
            Some(c) => c,
            None => return,
        };
        for chunk in new_c.chunks.iter() {
            let fresh: Vec<&String> = chunk.proxy_addresses.iter().filter(|a| !old.contains(*a)).collect();
            for a in fresh.iter() {
                if before.failed_proxies.contains(*a) || before.failures.contains_key(*a) {
                    self.viol("C06", "allocated-failed-proxy", format!("{}: {} allocated although failed/reported", opdesc, a));
                } else if self.down_free.contains(*a) {
                    self.viol("C06", "allocated-failed-proxy", format!("{}: {} allocated although it was failed over and has not registered again (the broker forgot its failed mark)", opdesc, a));
                }
                if before.all_proxies.get(*a).map(|r| r.cluster.is_some()).unwrap_or(true) {
                    self.viol("C12", "allocated-in-use", format!("{}: {} allocated although not free", opdesc, a));
                }
            }
            if fresh.len() == 2 && !self.cfg.ordered && chunk.hosts[0] == chunk.hosts[1] {
                self.viol("C12", "chunk-on-one-host", format!("{}: new chunk {:?} has both halves on host {}", opdesc, chunk.proxy_addresses, chunk.hosts[0]));
            }
            for (i, a) in chunk.proxy_addresses.iter().enumerate() {
                let h = after.all_proxies.get(a).map(|r| r.host.clone()).unwrap_or_default();
                if h != chunk.hosts[i] {
                    self.viol("C12", "chunk-host-record", format!("{}: chunk host record {} != proxy host {}", opdesc, chunk.hosts[i], h));
                }
            }
        }
    }

    fn refused_leaves_no_trace(&mut self, before: &MetaStore, opdesc: &str) {
        let after = self.store();
        if store_fingerprint(before, false) != store_fingerprint(&after, false) {
            self.viol("C12", "refused-left-partial-state", format!("{} was refused but changed the metadata", opdesc));
        }
    }

    fn do_failover(&mut self, addr: String, opdesc: &str) {
        let before = self.store();
        let in_cluster = before.all_proxies.get(&addr).and_then(|r| r.cluster.clone());
        let before_view = in_cluster.as_ref().and_then(|n| before.get_cluster_by_name(n.as_str(), 0));
        let res = block_on(self.svc.replace_failed_proxy(addr.clone()));
        self.rec.fault("failover");
        let after = self.store();
        let cname = match (in_cluster, before_view) {
            (Some(n), Some(_)) => n,
            _ => {
                if res.is_ok() && before.all_proxies.contains_key(&addr) {
                    self.rec.probe("failover_free_proxy");
                    // the harness's own record: this proxy was declared failed while free and stays
                    // out of every allocation until it registers again
                    self.down_free.insert(addr.clone());
                }
                return;
            }
        };
        let before_view = before.get_cluster_by_name(cname.as_str(), 0).expect("before view");
        let after_view = match after.get_cluster_by_name(cname.as_str(), 0) {
            Some(v) => v,
            None => return,
        };
        // who is the partner?
        let cs = before.clusters.get(&cname).expect("cluster");
        let (chunk, part) = match cs.chunks.iter().find_map(|ch| ch.proxy_addresses.iter().position(|a| a == &addr).map(|i| (ch.clone(), i))) {
            Some(x) => x,
            None => return,
        };
        let partner = chunk.proxy_addresses[1 - part].clone();
        let partner_healthy = !before.failed_proxies.contains(&partner) && !self.down.contains(&partner);
        self.down.insert(addr.clone());
        let already = before.failed_proxies.contains(&addr) && before_view.get_nodes().iter().filter(|n| n.get_proxy_address() == addr).all(|n| n.get_role() == Role::Replica);
        if res.is_ok() {
            if let Ok(Some(newp)) = res.as_ref() {
                self.rec.probe("failover_replaced");
                // C06/C12: the replacement must come from the healthy free pool
                let newa = newp.get_address().to_string();
                if before.failed_proxies.contains(&newa) || before.failures.contains_key(&newa) {
                    self.viol("C06", "allocated-failed-proxy", format!("{}: replacement {} is failed/reported", opdesc, newa));
                } else if self.down_free.contains(&newa) {
                    self.viol("C06", "allocated-failed-proxy", format!("{}: replacement {} was failed over and has not registered again (the broker forgot its failed mark)", opdesc, newa));
                }
                if before.all_proxies.get(&newa).map(|r| r.cluster.is_some()).unwrap_or(true) {
                    self.viol("C12", "allocated-in-use", format!("{}: replacement {} was not free", opdesc, newa));
                }
                // C12: host of the replacement vs host of the surviving partner
                let partner_host = before.all_proxies.get(&partner).map(|r| r.host.clone()).unwrap_or_default();
                let new_host = before.all_proxies.get(&newa).map(|r| r.host.clone()).unwrap_or_default();
                let other_host_available = Self::free_healthy(&before).iter().any(|(a, h)| a != &addr && h != &partner_host);
                if new_host == partner_host {
                    self.rec.probe("replacement_on_partner_host");
                    let failed_host = before.all_proxies.get(&addr).map(|r| r.host.clone()).unwrap_or_default();
                    let third_host_available = Self::free_healthy(&before).iter().any(|(a, h)| a != &addr && h != &partner_host && h != &failed_host);
                    if other_host_available && self.prop == "C12" {
                        let sig = if third_host_available { "replacement-on-partner-host:third-host-had-free-proxy" } else { "replacement-on-partner-host:only-failed-proxys-own-host-had-free-proxy" };
                        self.rec.violate(Violation::with_sig(
                            "C12",
                            "replacement-on-partner-host",
                            sig.to_string(),
                            format!("{}: {} replaced by {} on host {} = surviving partner {}'s host although another host had a free healthy proxy", opdesc, addr, newa, new_host, partner),
                        ));
                    }
                }
            } else {
                self.rec.probe("failover_no_replacement");
            }
        } else {
            self.rec.probe("failover_err");
        }
        if !partner_healthy {
            self.rec.probe("failover_partner_down_skipped");
            return;
        }
        if self.prop != "C06" {
            return;
        }
        self.failovers_checked += 1;
        if already {
            self.rec.probe("failover_repeated");
        }
        // ---- ownership diff
        let before_nodes = before_view.get_nodes();
        let after_nodes = after_view.get_nodes();
        // promoted mapping: master on failed proxy -> its replica peer (on partner)
        let mut promoted: BTreeMap<String, String> = BTreeMap::new();
        for n in before_nodes.iter() {
            if n.get_proxy_address() == addr && n.get_role() == Role::Master {
                if let Some(p) = n.get_repl_meta().get_peers().first() {
                    promoted.insert(n.get_address().to_string(), p.node_address.clone());
                    if p.proxy_address != partner {
                        self.viol("C06", "peer-not-on-partner", format!("{}: replica peer of {} is on {} not on partner {}", opdesc, n.get_address(), p.proxy_address, partner));
                    }
                }
            }
        }
        let map_node = |a: &str| -> String { promoted.get(a).cloned().unwrap_or_else(|| a.to_string()) };
        // expected: every slot range (with its tag kind and range list) moves with its node
        let mut expect: Vec<(String, String, String)> = vec![]; // (node, kind, ranges)
        for n in before_nodes.iter() {
            for sr in n.get_slots() {
                let kind = match sr.tag {
                    SlotRangeTag::None => "stable",
                    SlotRangeTag::Migrating(_) => "migrating",
                    SlotRangeTag::Importing(_) => "importing",
                };
                expect.push((map_node(n.get_address()), kind.to_string(), sr.get_range_list().to_string()));
            }
        }
        let mut got: Vec<(String, String, String)> = vec![];
        for n in after_nodes.iter() {
            for sr in n.get_slots() {
                let kind = match sr.tag {
                    SlotRangeTag::None => "stable",
                    SlotRangeTag::Migrating(_) => "migrating",
                    SlotRangeTag::Importing(_) => "importing",
                };
                got.push((n.get_address().to_string(), kind.to_string(), sr.get_range_list().to_string()));
            }
        }
        expect.sort();
        got.sort();
        if expect != got {
            let missing: Vec<_> = expect.iter().filter(|e| !got.contains(e)).take(3).collect();
            let extra: Vec<_> = got.iter().filter(|e| !expect.contains(e)).take(3).collect();
            self.viol("C06", "ownership-diff", format!("{}: failing {} (partner {}): expected-but-missing {:?}, unexpected {:?}", opdesc, addr, partner, missing, extra));
        }
        // no node of the failed proxy is master if it is still in the cluster
        for n in after_nodes.iter() {
            if n.get_proxy_address() == addr && n.get_role() == Role::Master {
                self.viol("C06", "failed-proxy-still-master", format!("{}: {} on failed proxy {} is still master", opdesc, n.get_address(), addr));
            }
        }
        if let Err(e) = views::check_repl_pairs(&after_view) {
            self.viol("C06", "repl-pairs", format!("{}: {}", opdesc, e));
        }
        // migrations: those whose source or destination master was on the failed proxy
        // must name the promoted node/partner proxy and carry a strictly newer epoch;
        // any migration whose addresses changed must carry a strictly newer epoch.
        let (_, bm) = match views::collect(before_nodes) {
            Ok(x) => x,
            Err(_) => return,
        };
        let (_, am) = match views::collect(after_nodes) {
            Ok(x) => x,
            Err(_) => return,
        };
        for b in bm.iter().filter(|m| !m.importing) {
            let a = match am.iter().find(|m| !m.importing && m.ranges == b.ranges) {
                Some(a) => a,
                None => {
                    self.viol("C06", "migration-lost", format!("{}: migration {:?} disappeared", opdesc, b.ranges));
                    continue;
                }
            };
            let want_src_node = map_node(&b.src_node);
            let want_dst_node = map_node(&b.dst_node);
            let want_src_proxy = if b.src_proxy == addr && promoted.contains_key(&b.src_node) { partner.clone() } else { b.src_proxy.clone() };
            let want_dst_proxy = if b.dst_proxy == addr && promoted.contains_key(&b.dst_node) { partner.clone() } else { b.dst_proxy.clone() };
            let touched = promoted.contains_key(&b.src_node) || promoted.contains_key(&b.dst_node);
            if a.src_node != want_src_node || a.dst_node != want_dst_node || a.src_proxy != want_src_proxy || a.dst_proxy != want_dst_proxy {
                self.viol("C06", "migration-addresses", format!("{}: migration {:?}: expected {}@{} -> {}@{}, served {}@{} -> {}@{}", opdesc, b.ranges, want_src_node, want_src_proxy, want_dst_node, want_dst_proxy, a.src_node, a.src_proxy, a.dst_node, a.dst_proxy));
            }
            let changed = a.src_node != b.src_node || a.dst_node != b.dst_node || a.src_proxy != b.src_proxy || a.dst_proxy != b.dst_proxy;
            if (touched || changed) && a.epoch <= b.epoch {
                self.rec.probe("c06_migration_epoch_checked");
                self.viol(
                    "C06",
                    "migration-epoch-not-newer",
                    format!("{}: migration {:?} (src {} dst {}) {} but keeps migration epoch {} (was {})", opdesc, b.ranges, b.src_node, b.dst_node, if changed { "changed addresses" } else { "touches the failed proxy" }, a.epoch, b.epoch),
                );
            }
            if touched {
                self.rec.probe("failover_touching_migration");
            }
        }
    }

    fn apply(&mut self, op: &Op, idx: usize) {
        let opdesc = format!("op#{} {}", idx, serde_json::to_string(op).unwrap_or_default());
        let mut restored = false;
        match op {
            Op::AddProxy { h, i } => {
                let index = if self.cfg.ordered {
                    // StatefulSet style: the index is the global ordinal of (h, i)
                    Some(self.cfg.hosts.iter().take(*h).sum::<usize>() + *i)
                } else {
                    None
                };
                let addr = proxy_addr(*h, *i);
                let r = block_on(self.svc.add_proxy(payload(*h, *i, index)));
                self.reports.remove(&addr);
                self.down.remove(&addr);
                self.down_free.remove(&addr);
                if r.is_ok() || r == Err(MetaStoreError::AlreadyExisted) {
                    if self.prop == "C18" {
                        let failures = block_on(self.svc.get_failures()).unwrap_or_default();
                        let failed = block_on(self.svc.get_failed_proxies()).unwrap_or_default();
                        if failures.contains(&addr) {
                            self.viol("C18", "reregistered-still-reported", format!("{}: {} still listed by get_failures", opdesc, addr));
                        }
                        if failed.contains(&addr) {
                            self.viol("C18", "reregistered-still-failed", format!("{}: {} still marked failed", opdesc, addr));
                        }
                    }
                }
            }
            Op::RemoveProxy { pick } => {
                let st = self.store();
                let ps = Self::sorted_proxies(&st);
                if !ps.is_empty() {
                    let a = ps[(*pick % ps.len() as u64) as usize].clone();
                    let _ = block_on(self.svc.remove_proxy(a));
                }
            }
            Op::AddCluster { c, nodes } => {
                let before = self.store();
                let r = block_on(self.svc.add_cluster(cluster_name(*c), *nodes));
                match r {
                    Ok(()) => {
                        let after = self.store();
                        self.rec.probe("add_cluster_ok");
                        self.check_allocation(&before, &after, &cluster_name(*c), &opdesc);
                    }
                    Err(_) => self.refused_leaves_no_trace(&before, &opdesc),
                }
            }
            Op::RemoveCluster { c } => {
                let _ = block_on(self.svc.remove_cluster(cluster_name(*c)));
            }
            Op::AddNodes { c, n } => {
                let before = self.store();
                let mig = stored_migrating(&before, &cluster_name(*c));
                let r = block_on(self.svc.auto_add_nodes(cluster_name(*c), *n));
                match r {
                    Ok(_) => {
                        if mig {
                            self.viol("C10", "scaling-accepted-while-migrating", format!("{} accepted while a migration is running", opdesc));
                        }
                        let after = self.store();
                        self.rec.probe("add_nodes_ok");
                        self.check_allocation(&before, &after, &cluster_name(*c), &opdesc);
                    }
                    Err(_) => self.refused_leaves_no_trace(&before, &opdesc),
                }
            }
            Op::ScaleUp { c, n } => {
                let before = self.store();
                let mig = stored_migrating(&before, &cluster_name(*c));
                let r = block_on(self.svc.auto_scale_up_nodes(cluster_name(*c), *n));
                match r {
                    Ok(_) => {
                        if mig {
                            self.viol("C10", "scaling-accepted-while-migrating", format!("{} accepted while a migration is running", opdesc));
                        }
                        let after = self.store();
                        self.rec.probe("scale_up_ok");
                        self.check_allocation(&before, &after, &cluster_name(*c), &opdesc);
                    }
                    Err(_) => self.refused_leaves_no_trace(&before, &opdesc),
                }
            }
            Op::Migrate { c } => {
                let before = self.store();
                let mig = stored_migrating(&before, &cluster_name(*c));
                let r = block_on(self.svc.migrate_slots(cluster_name(*c)));
                if r.is_ok() {
                    self.rec.probe("migrate_ok");
                    if mig {
                        self.viol("C10", "scaling-accepted-while-migrating", format!("{} accepted while a migration is running", opdesc));
                    }
                }
            }
            Op::ScaleDown { c, n } => {
                let before = self.store();
                let mig = stored_migrating(&before, &cluster_name(*c));
                let r = block_on(self.svc.migrate_slots_to_scale_down(cluster_name(*c), *n));
                if r.is_ok() {
                    self.rec.probe("scale_down_ok");
                    if mig {
                        self.viol("C10", "scaling-accepted-while-migrating", format!("{} accepted while a migration is running", opdesc));
                    }
                }
            }
            Op::Commit { c, pick, variant } => {
                self.do_commit(*c, *pick, *variant, &opdesc);
            }
            Op::DeleteFree { c } => {
                self.do_delete_free(*c, &opdesc);
            }
            Op::Failover { pick, in_cluster } => {
                let st = self.store();
                let mut ps = Self::sorted_proxies(&st);
                if *in_cluster {
                    let inc: Vec<String> = ps.iter().filter(|a| st.all_proxies.get(*a).map(|r| r.cluster.is_some()).unwrap_or(false)).cloned().collect();
                    if !inc.is_empty() {
                        ps = inc;
                    }
                }
                if !ps.is_empty() {
                    let a = ps[(*pick % ps.len() as u64) as usize].clone();
                    self.do_failover(a, &opdesc);
                } else {
                    let _ = block_on(self.svc.replace_failed_proxy("10.9.9.9:7000".to_string()));
                }
            }
            Op::Report { pick, r, unknown } => {
                // reports may name any proxy of the universe, registered or not (and, rarely, a foreign address)
                let uni = universe(&self.cfg);
                let addr = if *unknown || uni.is_empty() {
                    format!("10.77.{}.1:7000", pick % 3)
                } else {
                    let (h, i) = uni[(*pick % uni.len() as u64) as usize];
                    proxy_addr(h, i)
                };
                let reporter = format!("r{}", r);
                let now = clock_ms();
                let _ = block_on(self.svc.add_failure(addr.clone(), reporter.clone()));
                self.reports.entry(addr).or_default().insert(reporter, now);
                self.rec.fault("failure_report");
            }
            Op::GetFailures => {
                self.do_get_failures(&opdesc);
            }
            Op::Balance { c } => {
                let before = self.store();
                let r = block_on(self.svc.balance_masters(cluster_name(*c)));
                // C06: rebalancing never hands a master (back) to a proxy that is marked failed or
                // under failure report and has not been replaced
                if r.is_ok() && self.prop == "C06" {
                    let after = self.store();
                    let name = cluster_name(*c);
                    if let (Some(bv), Some(av)) = (before.get_cluster_by_name(&name, 0), after.get_cluster_by_name(&name, 0)) {
                        let masters = |v: &undermoon::common::cluster::Cluster, a: &str| v.get_nodes().iter().filter(|n| n.get_proxy_address() == a && n.get_role() == Role::Master).count();
                        let mut addrs: Vec<String> = bv.get_nodes().iter().map(|n| n.get_proxy_address().to_string()).collect();
                        addrs.sort();
                        addrs.dedup();
                        for a in addrs {
                            if before.failed_proxies.contains(&a) || before.failures.contains_key(&a) {
                                self.rec.probe("balance_with_failed_or_reported_proxy");
                                let (mb, ma) = (masters(&bv, &a), masters(&av, &a));
                                if ma > mb {
                                    self.viol("C06", "rebalance-gave-master-to-failed-proxy", format!("{}: proxy {} (failed mark: {}, under failure report: {}) had {} master node(s) before the rebalance and {} after it", opdesc, a, before.failed_proxies.contains(&a), before.failures.contains_key(&a), mb, ma));
                                }
                            }
                        }
                    }
                }
            }
            Op::Config { c, k, v } => {
                let keys = ["compression_strategy", "migration_scan_count", "migration_max_blocking_time", "migration_scan_interval", "bogus_key"];
                let vals = ["disabled", "set_get_only", "allow_all", "16", "1", "0", "77", "xx"];
                // 1-3 fields per request (a refused request must not apply its valid fields)
                let mut m = std::collections::HashMap::new();
                let n_fields = 1 + (*k as usize / 5) % 3;
                for i in 0..n_fields {
                    m.insert(keys[(*k as usize + i * 2) % keys.len()].to_string(), vals[(*v as usize + i * 3) % vals.len()].to_string());
                }
                let before = self.store();
                let mig = stored_migrating(&before, &cluster_name(*c));
                let r = block_on(self.svc.change_config(cluster_name(*c), m));
                if r.is_ok() && mig {
                    self.viol("C10", "config-accepted-while-migrating", format!("{} accepted while a migration is running", opdesc));
                }
            }
            Op::Bump { delta } => {
                let g = self.store().get_global_epoch();
                let _ = block_on(self.svc.force_bump_all_epoch(g + *delta));
            }
            Op::Clock { secs, ms } => {
                CLOCK_SECS.fetch_add(*secs, Ordering::SeqCst);
                CLOCK_SUB_MS.fetch_add(*ms, Ordering::SeqCst);
                self.rec.fault("clock_jump");
            }
            Op::Drain { c, seed, chaos } => {
                self.do_drain(*c, *seed, *chaos, &opdesc);
            }
            Op::Resize { c, chunks } => {
                self.do_resize(*c, *chunks, &opdesc);
            }
        }
        let _ = &mut restored;
        self.after_op(&opdesc, restored);
    }

    fn do_commit(&mut self, c: usize, pick: u64, variant: u8, opdesc: &str) {
        let name = cluster_name(c);
        let view = block_on(self.svc.get_cluster_by_name(&name)).ok().flatten();
        let tasks = view.as_ref().map(visible_tasks).unwrap_or_default();
        let task = match variant {
            0 | 1 => {
                if tasks.is_empty() {
                    return;
                }
                let mut t = tasks[(pick % tasks.len() as u64) as usize].clone();
                if variant == 1 {
                    // the importing side reports the same task with the importing tag
                    if let SlotRangeTag::Migrating(m) = t.slot_range.tag.clone() {
                        t.slot_range.tag = SlotRangeTag::Importing(m);
                    }
                }
                t
            }
            2 => {
                if self.committed.is_empty() {
                    return;
                }
                self.committed[(pick % self.committed.len() as u64) as usize].clone()
            }
            3 => {
                if tasks.is_empty() {
                    return;
                }
                let mut t = tasks[(pick % tasks.len() as u64) as usize].clone();
                if let SlotRangeTag::Migrating(m) = &mut t.slot_range.tag {
                    m.epoch += 1 + (pick % 3);
                }
                t
            }
            _ => MigrationTaskMeta {
                cluster_name: ClusterName::try_from(name.as_str()).expect("name"),
                slot_range: SlotRange {
                    range_list: RangeList::new(vec![Range((pick % 16000) as usize, (pick % 16000) as usize + 7)]),
                    tag: if pick % 2 == 0 { SlotRangeTag::None } else { SlotRangeTag::Migrating(undermoon::common::cluster::MigrationMeta { epoch: pick, src_proxy_address: "a:1".into(), src_node_address: "a:2".into(), dst_proxy_address: "b:1".into(), dst_node_address: "b:2".into() }) },
                },
            },
        };
        let before = self.store();
        let r = block_on(self.svc.commit_migration(task.clone()));
        match (variant, &r) {
            (0, Ok(())) | (1, Ok(())) => {
                self.rec.probe("commit_ok");
                self.committed.push(task);
            }
            (2, Ok(())) => {
                // a task committed before must not be committable again unless the very same
                // (range, epoch) migration is pending again — impossible since epochs only grow
                self.viol("C01", "stale-commit-accepted", format!("{}: already committed task accepted again", opdesc));
            }
            (3, Ok(())) | (4, Ok(())) => {
                self.viol("C01", "bogus-commit-accepted", format!("{}: task that names no pending migration was accepted", opdesc));
            }
            (_, Err(_)) => {
                let after = self.store();
                if store_fingerprint(&before, false) != store_fingerprint(&after, false) {
                    self.viol("C01", "refused-commit-changed-state", format!("{} was refused but changed the metadata", opdesc));
                }
            }
            _ => {}
        }
    }

    fn do_delete_free(&mut self, c: usize, opdesc: &str) {
        let name = cluster_name(c);
        let before = self.store();
        let r = block_on(self.svc.auto_delete_free_nodes(name.clone()));
        if r.is_ok() {
            self.rec.probe("delete_free_ok");
            let after = self.store();
            let cn = ClusterName::try_from(name.as_str()).expect("name");
            if let (Some(b), Some(a)) = (before.clusters.get(&cn), after.clusters.get(&cn)) {
                let kept: BTreeSet<String> = a.chunks.iter().map(|ch| ch.proxy_addresses[0].clone()).collect();
                for ch in b.chunks.iter() {
                    if !kept.contains(&ch.proxy_addresses[0]) {
                        let owns = ch.stable_slots.iter().any(|s| s.is_some()) || ch.migrating_slots.iter().any(|m| !m.is_empty());
                        if owns {
                            self.viol("C10", "released-chunk-owned-slots", format!("{}: released chunk {:?} owned slots", opdesc, ch.proxy_addresses));
                        }
                        for a in ch.proxy_addresses.iter() {
                            if after.all_proxies.get(a).map(|r| r.cluster.is_some()).unwrap_or(false) {
                                self.viol("C12", "released-proxy-still-tagged", format!("{}: {} released but still tagged", opdesc, a));
                            }
                        }
                    }
                }
                if b.is_migrating() {
                    self.viol("C10", "release-accepted-while-migrating", format!("{} accepted while a migration is running", opdesc));
                }
            }
        }
    }

    fn do_get_failures(&mut self, opdesc: &str) {
        // millisecond clock: a report counts as fresh when its true age (not the age of its floored
        // timestamp) is at most the ttl; the broker's own test `now - floor(t) < ttl` implies that
        let now = clock_ms();
        let st = self.store();
        let got = block_on(self.svc.get_failures()).unwrap_or_default();
        let ttl = self.cfg.ttl as i64 * 1000;
        for a in got.iter() {
            self.rec.probe("failure_listed");
            if !st.all_proxies.contains_key(a) {
                self.viol("C18", "unregistered-listed", format!("{}: {} listed as failed but not registered", opdesc, a));
            }
            let fresh = self
                .reports
                .get(a)
                .map(|m| m.values().filter(|t| now - **t <= ttl).count())
                .unwrap_or(0) as u64;
            if fresh < self.cfg.quorum {
                self.viol(
                    "C18",
                    "listed-without-quorum",
                    format!("{}: {} listed as failed with {} fresh distinct reporters < quorum {} (now={}, reports={:?}, ttl={})", opdesc, a, fresh, self.cfg.quorum, now, self.reports.get(a), ttl),
                );
            }
        }
        let failed = block_on(self.svc.get_failed_proxies()).unwrap_or_default();
        for a in failed.iter() {
            if !st.all_proxies.contains_key(a) {
                self.viol("C18", "failed-mark-unregistered", format!("{}: {} marked failed but not registered", opdesc, a));
            }
        }
    }

    // ---- C10

    fn do_resize(&mut self, c: usize, chunks: usize, opdesc: &str) {
        let name = cluster_name(c);
        let st = self.store();
        let cn = ClusterName::try_from(name.as_str()).expect("name");
        let cur = match st.clusters.get(&cn) {
            Some(cl) => cl.chunks.len(),
            None => return,
        };
        if stored_migrating(&st, &name) {
            return;
        }
        // free nodes left over from an earlier scale-in are released first, as the API does
        let _ = block_on(self.svc.auto_delete_free_nodes(name.clone()));
        let st = self.store();
        let cur2 = st.clusters.get(&cn).map(|cl| cl.chunks.len()).unwrap_or(cur);
        if chunks > cur2 {
            let before = self.store();
            match block_on(self.svc.auto_scale_up_nodes(name.clone(), chunks * 4)) {
                Ok(_) => {
                    let after = self.store();
                    self.check_allocation(&before, &after, &name, opdesc);
                    match block_on(self.svc.migrate_slots(name.clone())) {
                        Ok(()) => self.rec.probe("resize_up"),
                        Err(e) => self.viol("C10", "scale-out-migration-refused", format!("{}: migrate_slots after adding nodes: {:?}", opdesc, e)),
                    }
                }
                Err(_) => {
                    self.rec.probe("resize_up_no_resource");
                }
            }
        } else if chunks < cur2 && chunks >= 1 {
            match block_on(self.svc.migrate_slots_to_scale_down(name.clone(), chunks * 4)) {
                Ok(()) => self.rec.probe("resize_down"),
                Err(e) => self.viol("C10", "scale-in-refused", format!("{}: {:?}", opdesc, e)),
            }
        }
    }

    fn do_drain(&mut self, c: usize, seed: u64, chaos: u8, opdesc: &str) {
        let name = cluster_name(c);
        let cn = ClusterName::try_from(name.as_str()).expect("name");
        let mut rng = Rng::new(seed, "drain");
        let st0 = self.store();
        let cl0 = match st0.clusters.get(&cn) {
            Some(x) => x.clone(),
            None => return,
        };
        if !cl0.is_migrating() {
            return;
        }
        let total_migrations: usize = cl0.chunks.iter().map(|ch| ch.migrating_slots.iter().map(|m| m.iter().filter(|x| x.is_migrating).count()).sum::<usize>()).sum();
        let chunks_before = cl0.chunks.len();
        let slotless_expected: usize = cl0.chunks.iter().filter(|ch| ch.stable_slots.iter().all(|s| s.is_none()) && ch.migrating_slots.iter().all(|m| m.iter().all(|x| x.is_migrating))).count();
        let scale_in = slotless_expected > 0;
        let bound = 4 * total_migrations + 8;
        let mut commits = 0usize;
        let mut iters = 0usize;
        loop {
            iters += 1;
            if iters > bound * 4 {
                self.viol("C10", "drain-not-terminating", format!("{}: {} iterations for {} migrations and still pending", opdesc, iters, total_migrations));
                return;
            }
            let st = self.store();
            if !stored_migrating(&st, &name) {
                break;
            }
            // chaos
            if chaos > 0 && rng.chance(chaos as u64, 100) {
                match rng.below(6) {
                    0 | 1 => {
                        let inc: Vec<String> = st.clusters.get(&cn).map(|c| c.get_proxy_addresses()).unwrap_or_default();
                        if !inc.is_empty() {
                            let a = rng.pick(&inc).clone();
                            self.do_failover(a, opdesc);
                            self.rec.probe("drain_failover");
                        }
                    }
                    2 => {
                        let _ = block_on(self.svc.balance_masters(name.clone()));
                        self.rec.probe("drain_balance");
                    }
                    3 => {
                        let mut m = std::collections::HashMap::new();
                        m.insert("migration_scan_count".to_string(), "8".to_string());
                        let before = self.store();
                        if block_on(self.svc.change_config(name.clone(), m)).is_ok() {
                            self.viol("C10", "config-accepted-while-migrating", format!("{}: change_config accepted while a migration is running", opdesc));
                        } else {
                            self.refused_leaves_no_trace_for("C10", &before, "change_config during migration");
                        }
                        self.rec.probe("drain_refused_config");
                    }
                    4 => {
                        let before = self.store();
                        let r = match rng.below(4) {
                            0 => block_on(self.svc.auto_scale_up_nodes(name.clone(), (chunks_before + 1) * 4)).map(|_| ()),
                            1 => block_on(self.svc.migrate_slots(name.clone())),
                            2 => block_on(self.svc.migrate_slots_to_scale_down(name.clone(), 4)),
                            _ => block_on(self.svc.auto_delete_free_nodes(name.clone())),
                        };
                        if r.is_ok() {
                            self.viol("C10", "scaling-accepted-while-migrating", format!("{}: a scaling request was accepted while a migration is running", opdesc));
                        } else {
                            self.refused_leaves_no_trace_for("C10", &before, "scaling during migration");
                        }
                        self.rec.probe("drain_refused_scaling");
                    }
                    _ => {
                        // re-register a failed proxy so that it can serve as a spare again
                        let failed: Vec<String> = st.failed_proxies.iter().cloned().collect();
                        let mut failed = failed;
                        failed.sort();
                        if !failed.is_empty() {
                            let a = rng.pick(&failed).clone();
                            if let Some(r) = st.all_proxies.get(&a) {
                                let v = json!({"proxy_address": a, "nodes": r.node_addresses, "host": r.host, "index": if self.cfg.ordered { Some(r.index) } else { None }});
                                if let Ok(p) = serde_json::from_value::<ProxyResourcePayload>(v) {
                                    let _ = block_on(self.svc.add_proxy(p));
                                    self.down.remove(&a);
                                    self.down_free.remove(&a);
                                }
                            }
                        }
                    }
                }
                self.after_op(opdesc, false);
                continue;
            }
            let view = block_on(self.svc.get_cluster_by_name(&name)).ok().flatten();
            let tasks = view.as_ref().map(visible_tasks).unwrap_or_default();
            if tasks.is_empty() {
                self.viol("C10", "pending-but-nothing-visible", format!("{}: migrations are pending but the served view (limit {}) shows none", opdesc, self.cfg.migration_limit));
                return;
            }
            let t = rng.pick(&tasks).clone();
            match block_on(self.svc.commit_migration(t.clone())) {
                Ok(()) => {
                    commits += 1;
                    self.rec.probe("commit_ok");
                }
                Err(e) => {
                    self.viol("C10", "visible-task-not-committable", format!("{}: commit of a task taken from the served view failed: {:?} task={:?}", opdesc, e, t));
                    return;
                }
            }
            self.after_op(opdesc, false);
        }
        self.rec.probe_n("drain_commits", commits as u64);
        // ---- end-of-round oracle
        let st = self.store();
        let cl = match st.clusters.get(&cn) {
            Some(x) => x.clone(),
            None => return,
        };
        let view = match st.get_cluster_by_name(&name, 0) {
            Some(v) => v,
            None => return,
        };
        match views::check_cluster_view(&view) {
            Ok(_) => {}
            Err(e) => self.viol("C10", "end-partition", format!("{}: after draining: {}", opdesc, e)),
        }
        if view.get_nodes().iter().any(|n| n.get_slots().iter().any(|s| !s.tag.is_stable())) {
            self.viol("C10", "end-pending", format!("{}: migration tags remain after draining", opdesc));
        }
        let counts: Vec<usize> = cl.chunks.iter().flat_map(|ch| ch.stable_slots.iter().map(|s| s.as_ref().map(|x| x.get_range_list().get_slots_num()).unwrap_or(0)).collect::<Vec<_>>()).collect();
        let owning: Vec<usize> = counts.iter().cloned().filter(|n| *n > 0).collect();
        let total: usize = owning.iter().sum();
        if total != views::SLOTS {
            self.viol("C10", "end-total", format!("{}: stable slots sum to {}", opdesc, total));
        }
        if let (Some(mx), Some(mn)) = (owning.iter().max(), owning.iter().min()) {
            if mx - mn > 1 {
                self.viol("C10", "end-unbalanced", format!("{}: master slot counts {:?}", opdesc, counts));
            }
        }
        // slot-less masters must be exactly the trailing chunks
        let first_empty = counts.iter().position(|n| *n == 0);
        if let Some(fe) = first_empty {
            if fe % 2 != 0 || counts[fe..].iter().any(|n| *n != 0) {
                self.viol("C10", "end-not-trailing", format!("{}: slot-less masters are not exactly the trailing chunks: {:?}", opdesc, counts));
            }
            if !scale_in {
                self.viol("C10", "end-empty-after-scale-out", format!("{}: scale-out left slot-less masters: {:?}", opdesc, counts));
            }
            let empty_chunks = (counts.len() - fe) / 2;
            if scale_in && empty_chunks != slotless_expected {
                self.viol("C10", "end-wrong-free-count", format!("{}: {} chunks slot-less, expected {}", opdesc, empty_chunks, slotless_expected));
            }
            // release them and verify exactly those disappear
            let trailing: Vec<[String; 2]> = cl.chunks[fe / 2..].iter().map(|ch| ch.proxy_addresses.clone()).collect();
            let before = self.store();
            match block_on(self.svc.auto_delete_free_nodes(name.clone())) {
                Ok(()) => {
                    let after = self.store();
                    let ac = after.clusters.get(&cn).map(|c| c.chunks.len()).unwrap_or(0);
                    if ac != fe / 2 {
                        self.viol("C10", "release-count", format!("{}: {} chunks remain after release, expected {}", opdesc, ac, fe / 2));
                    }
                    for pair in trailing.iter() {
                        for a in pair.iter() {
                            if after.all_proxies.get(a).map(|r| r.cluster.is_some()).unwrap_or(false) {
                                self.viol("C10", "release-not-freed", format!("{}: {} not returned to the free pool", opdesc, a));
                            }
                        }
                    }
                    if let Some(v) = after.get_cluster_by_name(&name, 0) {
                        if let Err(e) = views::check_cluster_view(&v) {
                            self.viol("C10", "release-broke-partition", format!("{}: {}", opdesc, e));
                        }
                    }
                    self.rec.probe("released_trailing_chunks");
                    let _ = before;
                }
                Err(e) => self.viol("C10", "release-refused", format!("{}: auto_delete_free_nodes refused: {:?}", opdesc, e)),
            }
        } else if scale_in {
            self.viol("C10", "end-no-free-after-scale-in", format!("{}: scale-in finished but no chunk is slot-less: {:?}", opdesc, counts));
        }
        self.rec.nontrivial = true;
        self.rec.probe("rounds_completed");
        self.after_op(opdesc, false);
    }

    fn refused_leaves_no_trace_for(&mut self, prop: &str, before: &MetaStore, what: &str) {
        let after = self.store();
        if store_fingerprint(before, false) != store_fingerprint(&after, false) {
            self.viol(prop, "refused-request-changed-state", format!("{} was refused but changed the metadata", what));
        }
    }

    // ---- C13 (E1 part): every crash point of this history

    fn crash_points(&mut self, rng: &mut Rng) {
        let snaps = std::mem::take(&mut self.snapshots);
        let n = snaps.len();
        for (k, snap) in snaps.iter().enumerate() {
            // a distribution of installed epochs: each proxy holds an epoch served at some step >= k
            let mut installed: BTreeMap<String, u64> = BTreeMap::new();
            for (addr, eps) in self.served_epochs.iter() {
                let lo = snap.all_proxies.get(addr).map(|_| 0).unwrap_or(0);
                let _ = lo;
                let e = if rng.chance(1, 2) { *eps.last().unwrap_or(&0) } else { *rng.pick(eps) };
                installed.insert(addr.clone(), e);
            }
            let max_installed = installed.values().cloned().max().unwrap_or(0).max(if rng.chance(1, 3) { self.max_epoch_ever } else { 0 });
            let svc2 = match new_service(&self.cfg, Some(snap.clone())) {
                Ok(s) => s,
                Err(e) => {
                    self.viol("C13", "restore-refused", format!("crash point {}/{}: restart from own snapshot refused: {:?}", k, n, e));
                    continue;
                }
            };
            if std::env::var("VERIF_DEBUG").is_ok() { eprintln!("crash point {} snap_epoch {} max_installed {}", k, snap.get_global_epoch(), max_installed); }
            INJECTED_MAX_EPOCH.store(max_installed, Ordering::SeqCst);
            let r = block_on(svc2.recover_epoch());
            INJECTED_MAX_EPOCH.store(u64::MAX, Ordering::SeqCst);
            if let Err(e) = r {
                self.viol("C13", "recover-failed", format!("crash point {}/{}: {:?}", k, n, e));
                continue;
            }
            self.rec.fault("broker_crash_restart_from_snapshot");
            let st2 = block_on(svc2.get_all_data()).expect("data");
            if std::env::var("VERIF_DEBUG").is_ok() { eprintln!("   recovered global epoch {}", st2.get_global_epoch()); }
            let mut addrs: Vec<String> = st2.all_proxies.keys().cloned().collect();
            addrs.sort();
            for a in addrs.iter() {
                for l in LIMITS.iter() {
                    if let Some(p) = st2.get_proxy_by_address(a, *l) {
                        if p.get_epoch() <= max_installed {
                            self.viol(
                                "C13",
                                "recovered-epoch-not-greater",
                                format!("crash point {}/{} (snapshot epoch {}): view of {} has epoch {} <= largest installed proxy epoch {}", k, n, snap.get_global_epoch(), a, p.get_epoch(), max_installed),
                            );
                        }
                    }
                }
            }
            for name in st2.clusters.keys() {
                for l in LIMITS.iter() {
                    if let Some(c) = st2.get_cluster_by_name(name.as_str(), *l) {
                        if c.get_epoch() <= max_installed {
                            self.viol("C13", "recovered-epoch-not-greater", format!("crash point {}/{}: cluster {} epoch {} <= {}", k, n, name, c.get_epoch(), max_installed));
                        }
                        if let Err(e) = views::check_cluster_view(&c) {
                            self.viol("C13", "recovered-partition", format!("crash point {}/{}: {}", k, n, e));
                        }
                    }
                }
            }
            if st2.get_global_epoch() <= max_installed {
                self.viol("C13", "recovered-epoch-not-greater", format!("crash point {}/{}: global epoch {} <= {}", k, n, st2.get_global_epoch(), max_installed));
            }
            self.rec.steps += 1;
            if snap.clusters.values().any(|c| c.is_migrating()) {
                self.rec.probe("crash_mid_migration");
            }
            if !snap.failed_proxies.is_empty() {
                self.rec.probe("crash_after_failover");
            }
        }
    }
}

fn short(s: &str) -> String {
    if s.len() > 400 {
        format!("{}…", &s[..400])
    } else {
        s.to_string()
    }
}

// ---------------------------------------------------------------------------
// plan generation

fn gen_cfg(rng: &mut Rng, prop: &str) -> Cfg {
    let ordered = rng.chance(1, 5);
    let nhosts = rng.range(2, 6) as usize;
    let mut hosts = vec![];
    for _ in 0..nhosts {
        hosts.push(if ordered { 1 } else { rng.range(1, 5) as usize });
    }
    if ordered {
        // StatefulSet: one proxy per host, more of them
        let n = rng.range(4, 14) as usize;
        hosts = vec![1; n];
    }
    let _ = prop;
    Cfg {
        ordered,
        migration_limit: *rng.pick(&[0u64, 0, 1, 1, 2, 3]),
        quorum: rng.range(1, 4),
        ttl: *rng.pick(&[2u64, 60]),
        hosts,
    }
}

fn universe(cfg: &Cfg) -> Vec<(usize, usize)> {
    let mut v = vec![];
    for (h, n) in cfg.hosts.iter().enumerate() {
        for i in 0..*n {
            v.push((h, i));
        }
    }
    v
}

fn gen_history(rng: &mut Rng, cfg: &Cfg, n_ops: usize) -> Vec<Op> {
    let uni = universe(cfg);
    let mut ops = vec![];
    // register most proxies first (in order, as ordered mode requires)
    for (h, i) in uni.iter() {
        if cfg.ordered || rng.chance(9, 10) {
            ops.push(Op::AddProxy { h: *h, i: *i });
        }
    }
    let max_chunks = (uni.len() / 2).max(1);
    let c0_chunks = rng.range(1, (max_chunks as u64).min(4)) as usize;
    ops.push(Op::AddCluster { c: 0, nodes: c0_chunks * 4 });
    while ops.len() < n_ops {
        let c = if cfg.ordered { 0 } else { *rng.pick(&[0usize, 0, 0, 1]) };
        let r = rng.below(100);
        let op = match r {
            0..=3 => {
                let (h, i) = *rng.pick(&uni);
                Op::AddProxy { h, i }
            }
            4..=5 => Op::RemoveProxy { pick: rng.next() },
            6..=9 => Op::AddCluster { c, nodes: *rng.pick(&[4usize, 4, 8, 8, 12, 6, 0, 16]) },
            10 => Op::RemoveCluster { c },
            11..=14 => Op::AddNodes { c, n: *rng.pick(&[4usize, 4, 8, 2]) },
            15..=19 => Op::ScaleUp { c, n: *rng.pick(&[8usize, 12, 16, 20, 4]) },
            20..=29 => Op::Migrate { c },
            30..=35 => Op::ScaleDown { c, n: *rng.pick(&[4usize, 4, 8, 12, 0, 6]) },
            36..=62 => Op::Commit { c, pick: rng.next(), variant: *rng.pick(&[0u8, 0, 0, 0, 0, 0, 1, 1, 2, 3, 4]) },
            63..=66 => Op::DeleteFree { c },
            67..=78 => Op::Failover { pick: rng.next(), in_cluster: rng.chance(4, 5) },
            79..=84 => Op::Report { pick: rng.next(), r: rng.below(5) as u8, unknown: rng.chance(1, 10) },
            85..=87 => Op::GetFailures,
            88..=91 => Op::Balance { c },
            92..=95 => Op::Config { c, k: rng.below(15) as u8, v: rng.below(8) as u8 },
            96 => Op::Bump { delta: rng.range(0, 5) },
            _ => Op::Clock { secs: *rng.pick(&[1i64, 2, 3, 30, 59, 60, 61, 120]), ms: 0 },
        };
        // bias: after a scaling request, continue with partial commits
        let burst = matches!(op, Op::Migrate { .. } | Op::ScaleDown { .. });
        ops.push(op);
        if burst {
            let k = rng.range(0, 5);
            for _ in 0..k {
                ops.push(Op::Commit { c, pick: rng.next(), variant: 0 });
            }
        }
    }
    ops
}

fn gen_failure_history(rng: &mut Rng, cfg: &Cfg, n_ops: usize) -> Vec<Op> {
    let uni = universe(cfg);
    let mut ops = vec![];
    for (h, i) in uni.iter() {
        ops.push(Op::AddProxy { h: *h, i: *i });
    }
    if rng.chance(1, 2) {
        ops.push(Op::AddCluster { c: 0, nodes: 4 });
    }
    let ttl = cfg.ttl as i64;
    while ops.len() < n_ops {
        let r = rng.below(100);
        let op = match r {
            0..=44 => Op::Report { pick: rng.below(4), r: rng.below(5) as u8, unknown: rng.chance(1, 8) },
            45..=64 => Op::GetFailures,
            65..=79 => Op::Clock { secs: (*rng.pick(&[0i64, 1, 1, ttl - 1, ttl, ttl + 1, 2 * ttl, ttl / 2])).max(0), ms: *rng.pick(&[0i64, 0, 100, 400, 500, 900, 999]) },
            80..=87 => {
                let (h, i) = *rng.pick(&uni);
                Op::AddProxy { h, i }
            }
            88..=92 => Op::RemoveProxy { pick: rng.below(4) },
            _ => Op::Failover { pick: rng.below(4), in_cluster: false },
        };
        ops.push(op);
    }
    ops
}

fn gen_scaling_chain(rng: &mut Rng, cfg: &Cfg) -> Vec<Op> {
    let uni = universe(cfg);
    let mut ops = vec![];
    for (h, i) in uni.iter() {
        ops.push(Op::AddProxy { h: *h, i: *i });
    }
    let max_chunks = (uni.len() / 2).max(1);
    let start = rng.range(1, (max_chunks as u64).min(6)) as usize;
    ops.push(Op::AddCluster { c: 0, nodes: start * 4 });
    let rounds = rng.range(2, 5);
    for _ in 0..rounds {
        let target = rng.range(1, (max_chunks as u64).min(6)) as usize;
        ops.push(Op::Resize { c: 0, chunks: target });
        ops.push(Op::Drain { c: 0, seed: rng.next(), chaos: *rng.pick(&[0u8, 0, 10, 25, 40]) });
    }
    ops
}

// ---------------------------------------------------------------------------

pub struct BrokerCheck {
    pub prop: &'static str,
}

impl BrokerCheck {
    fn mode(&self) -> &'static str {
        match self.prop {
            "C10" => "scale",
            "C18" => "reports",
            "C13" => "recover",
            _ => "hist",
        }
    }
}

impl Check for BrokerCheck {
    fn id(&self) -> &'static str {
        self.prop
    }
    fn engine(&self) -> &'static str {
        "E1 broker-sim"
    }
    fn budget(&self, tier: Tier) -> (u64, Duration) {
        match (self.prop, tier) {
            ("C18", Tier::Quick) => (20_000, Duration::from_secs(40)),
            ("C18", Tier::Thorough) => (1_000_000, Duration::from_secs(600)),
            ("C13", Tier::Quick) => (600, Duration::from_secs(45)),
            ("C13", Tier::Thorough) => (20_000, Duration::from_secs(900)),
            ("C10", Tier::Quick) => (2_500, Duration::from_secs(45)),
            ("C10", Tier::Thorough) => (80_000, Duration::from_secs(900)),
            (_, Tier::Quick) => (3_000, Duration::from_secs(45)),
            (_, Tier::Thorough) => (150_000, Duration::from_secs(900)),
        }
    }
    fn gen_plan(&self, seed: u64, _index: u64, _tier: Tier) -> Value {
        let mut rng = Rng::new(seed, "plan");
        let mut cfg = gen_cfg(&mut rng, self.prop);
        let ops = match self.mode() {
            "scale" => {
                cfg.ordered = false;
                // enough proxies for up to 6 chunks, on balanced hosts
                let nh = rng.range(2, 5) as usize;
                let per = rng.range(2, 6) as usize;
                cfg.hosts = (0..nh).map(|k| if k == 0 { per + rng.below(2) as usize } else { per }).collect();
                gen_scaling_chain(&mut rng, &cfg)
            }
            "reports" => {
                cfg.ordered = false;
                cfg.hosts = vec![2, 2];
                let n = rng.range(10, 60) as usize;
                gen_failure_history(&mut rng, &cfg, n)
            }
            "recover" => {
                let n = rng.range(8, 40) as usize;
                gen_history(&mut rng, &cfg, n)
            }
            _ => {
                let n = rng.range(40, 120) as usize;
                gen_history(&mut rng, &cfg, n)
            }
        };
        json!({"engine": "broker", "mode": self.mode(), "seed": seed, "cfg": cfg, "ops": ops})
    }
    fn execute(&self, plan: &Value, want_sample: bool) -> RunRecord {
        install_hooks();
        CLOCK_SECS.store(1_700_000_000, Ordering::SeqCst);
        CLOCK_SUB_MS.store(0, Ordering::SeqCst);
        let cfg: Cfg = serde_json::from_value(plan["cfg"].clone()).expect("cfg");
        let ops: Vec<Op> = serde_json::from_value(plan["ops"].clone()).expect("ops");
        let seed = plan["seed"].as_u64().unwrap_or(0);
        let mut w = World::new(self.prop, cfg);
        for (i, op) in ops.iter().enumerate() {
            w.apply(op, i);
        }
        if self.prop == "C13" {
            let mut rng = Rng::new(seed, "crash");
            w.crash_points(&mut rng);
        }
        let st = w.store();
        let fp = store_fingerprint(&st, true);
        let mut h = TraceHash::new();
        h.add(fp.as_bytes());
        let mut rec = std::mem::take(&mut w.rec);
        rec.state_hash = h.0;
        rec.trace_hash = w.trace.0 ^ h.0;
        rec.sched_hash = {
            // "interleaving" for E1 = the order of operation kinds that took effect
            let mut t = TraceHash::new();
            for op in ops.iter() {
                let v = serde_json::to_value(op).unwrap_or(Value::Null);
                t.add(v["op"].as_str().unwrap_or("").as_bytes());
            }
            t.0
        };
        rec.steps += w.ops_done;
        rec.vtime_ms = ((CLOCK_SECS.load(Ordering::SeqCst) - 1_700_000_000) * 1000) as u64;
        rec.nontrivial = match self.prop {
            "C01" | "C04" | "C12" => w.mid_migration_ops > 0 && rec.probes.get("commit_ok").cloned().unwrap_or(0) > 0,
            "C06" => w.failovers_checked > 0,
            "C10" => rec.nontrivial,
            "C13" => rec.faults.get("broker_crash_restart_from_snapshot").cloned().unwrap_or(0) > 0,
            "C18" => rec.probes.get("failure_listed").cloned().unwrap_or(0) > 0,
            _ => true,
        };
        rec.probe_n("ops_mid_migration", w.mid_migration_ops);
        rec.probe_n("failovers_checked", w.failovers_checked);
        if want_sample {
            rec.sample = Some(json!({"plan": crate::framework::truncate_value(plan, 3000), "final_global_epoch": st.get_global_epoch(), "clusters": st.clusters.len(), "proxies": st.all_proxies.len(), "failed": st.failed_proxies.len()}));
        }
        rec
    }
    fn limits(&self, _plan: Option<&Value>) -> ChildLimits {
        ChildLimits {
            wall_timeout: Duration::from_secs(60),
            rlimit_as: None,
            stack_bytes: 16 << 20,
        }
    }
    fn abnormal_exit(&self, exit: &ExitKind, output: &str) -> Option<Violation> {
        // a panic or abort inside a broker operation: C12 says no allocation request panics;
        // every property's check reports it under its own id so that it is never silently lost
        match exit {
            ExitKind::Exited(101) | ExitKind::Signaled(_) => {
                let loc = output.split(" @ ").nth(1).unwrap_or("").split(' ').next().unwrap_or("").to_string();
                Some(Violation::with_sig(self.prop, "broker-panic", format!("broker-panic@{}", loc), format!("broker operation panicked/aborted: {:?} {}", exit, output)))
            }
            _ => None,
        }
    }
    fn meta(&self) -> Meta {
        let rule: &'static str = match self.prop {
            "C01" | "C04" | "C12" => "plan = seeded broker operation history (40-120 ops over 2-14 proxies on skewed hosts, 1-2 clusters, migration_limit 0-3, ordered mode 1/5); oracle after every operation. Non-trivial = history passed through >=1 mid-migration state and >=1 successful commit; distinct = distinct (end-state hash, op-kind sequence hash).",
            "C06" => "same histories; non-trivial = >=1 failover of an in-cluster proxy with a healthy partner was diffed; distinct = distinct (end-state hash, op-kind sequence hash).",
            "C10" => "plan = scaling chain: 2-5 resize rounds between 1 and 6 chunks, each drained by committing served tasks in random order with failover/balance/refused-request chaos; non-trivial = >=1 round drained to completion and checked; distinct by (end-state, op-kind sequence).",
            "C13" => "plan = history of 8-40 ops; EVERY prefix is a crash point: restart real MemBrokerService from that snapshot, inject a sampled distribution of installed proxy epochs, run recover_epoch, check all served views; non-trivial = >=1 crash point exercised.",
            "C18" => "plan = 10-60 report/query/clock/registration ops, 5 reporters, quorum 1-4, ttl 2 or 60 s on the virtual clock (millisecond resolution: jumps of whole seconds plus 0-999 ms, so that queries land inside the second after a report's ttl); non-trivial = get_failures listed >=1 proxy.",
            _ => "",
        };
        Meta {
            level: if self.prop == "C13" { "fault_enumeration" } else { "exploration" },
            rule,
            real: vec!["broker::service::MemBrokerService", "broker::storage::MemoryStorage", "broker::store/update/migrate/query (MetaStore)", "common::cluster"],
            stubs: vec!["warp HTTP layer", "JsonFileStorage (replaced by in-memory SimDisk)", "JsonMetaReplicator", "fetch_max_epoch TCP (hook H7 injects the collected epoch)", "wall clock (hook H3 -> virtual clock)"],
            assumptions: vec!["single-threaded use of the broker (requests serialised by its RwLock in production)", "only snapshots produced by the broker itself are restored"],
            fault_kinds: vec!["failover", "failure_report", "clock_jump", "broker_crash_restart_from_snapshot"],
        }
    }
}
