//! Engine E3 — conn-sim: byte-level simulation of one client connection and the
//! backend connections of one real proxy (`handle_session` -> executor -> manager
//! -> blocking sender -> `handle_backend`/`handle_conn`), with seeded read/write
//! fragmentation, delays, stalls, resets and refused reconnects.
//!
//!   C15: RESP encoding / incremental decoding is lossless (codec level + Framed over chopped streams)
//!   C08: one reply per request, in order, from its own backend exchange
//!   C16: no client input can crash, abort or wedge a proxy

use crate::cluster::{proxy_config, run_sim, ProxyParams};
use crate::framework::{Check, Meta, RunRecord, Tier, Violation};
use crate::rng::{hash3, stream_id, Rng, TraceHash};
use crate::sandbox::{ChildLimits, ExitKind};
use crate::simnet::{Net, SimClientFactory};
use arc_swap::ArcSwap;
use bytes::BytesMut;
use futures::channel::mpsc;
use futures::{Future, SinkExt, StreamExt, TryStreamExt};
use parking_lot::Mutex;
use serde_json::{json, Value};
use std::net::SocketAddr;
use std::pin::Pin;
use std::sync::atomic::{AtomicU64, Ordering};
use std::sync::Arc;
use std::time::Duration;
use tokio::io::{AsyncReadExt, AsyncWriteExt, DuplexStream};
use tokio_util::codec::Decoder;
use undermoon::common::track::TrackedFutureRegistry;
use undermoon::common::verif::SimStream;
use undermoon::protocol::{
    new_optional_multi_packet_codec, new_simple_packet_codec, Array, BulkStr, DecodeError, DecodedPacket, EncodeError, OptionalMulti, PacketDecoder, PacketEncoder, Resp, RespCodec, RespPacket, RespVec,
};
use undermoon::proxy::backend::{BackendError, ConnFactory, ConnSink, ConnStream, CreateConnResult};
use undermoon::proxy::executor::SharedForwardHandler;
use undermoon::proxy::manager::MetaMap;
use undermoon::proxy::session::{handle_session, Session};
use undermoon::proxy::slowlog::SlowRequestLogger;

// ---------------------------------------------------------------------------
// independent RESP reader of the harness (for what the proxy writes)

#[derive(Clone, Debug, PartialEq)]
pub enum R {
    Simple(Vec<u8>),
    Error(Vec<u8>),
    Int(Vec<u8>),
    Bulk(Option<Vec<u8>>),
    Arr(Option<Vec<R>>),
}

/// Ok(Some((value, consumed))) | Ok(None) = incomplete | Err = not RESP
pub fn ref_parse(b: &[u8], depth: usize) -> Result<Option<(R, usize)>, String> {
    if b.is_empty() {
        return Ok(None);
    }
    if depth > 64 {
        return Err("nesting too deep for the reference reader".into());
    }
    let line_end = match b.windows(2).position(|w| w == b"\r\n") {
        Some(p) => p,
        None => return Ok(None),
    };
    let line = &b[1..line_end];
    let after = line_end + 2;
    match b[0] {
        b'+' => Ok(Some((R::Simple(line.to_vec()), after))),
        b'-' => Ok(Some((R::Error(line.to_vec()), after))),
        b':' => Ok(Some((R::Int(line.to_vec()), after))),
        b'$' => {
            let n: i64 = std::str::from_utf8(line).ok().and_then(|s| s.parse().ok()).ok_or("bad bulk length")?;
            if n == -1 {
                return Ok(Some((R::Bulk(None), after)));
            }
            if n < 0 {
                return Err("negative bulk length".into());
            }
            let n = n as usize;
            if b.len() < after + n + 2 {
                return Ok(None);
            }
            if &b[after + n..after + n + 2] != b"\r\n" {
                return Err("bulk payload not followed by CRLF".into());
            }
            Ok(Some((R::Bulk(Some(b[after..after + n].to_vec())), after + n + 2)))
        }
        b'*' => {
            let n: i64 = std::str::from_utf8(line).ok().and_then(|s| s.parse().ok()).ok_or("bad array length")?;
            if n == -1 {
                return Ok(Some((R::Arr(None), after)));
            }
            if n < 0 {
                return Err("negative array length".into());
            }
            let mut pos = after;
            let mut v = vec![];
            for _ in 0..n {
                match ref_parse(&b[pos..], depth + 1)? {
                    Some((x, c)) => {
                        v.push(x);
                        pos += c;
                    }
                    None => return Ok(None),
                }
            }
            Ok(Some((R::Arr(Some(v)), pos)))
        }
        other => Err(format!("bad prefix {}", other)),
    }
}

fn r_of_resp(r: &RespVec) -> R {
    match r {
        Resp::Simple(s) => R::Simple(s.clone()),
        Resp::Error(s) => R::Error(s.clone()),
        Resp::Integer(s) => R::Int(s.clone()),
        Resp::Bulk(BulkStr::Nil) => R::Bulk(None),
        Resp::Bulk(BulkStr::Str(s)) => R::Bulk(Some(s.clone())),
        Resp::Arr(Array::Nil) => R::Arr(None),
        Resp::Arr(Array::Arr(v)) => R::Arr(Some(v.iter().map(r_of_resp).collect())),
    }
}

fn ref_encode(r: &R, out: &mut Vec<u8>) {
    match r {
        R::Simple(s) => {
            out.push(b'+');
            out.extend_from_slice(s);
            out.extend_from_slice(b"\r\n");
        }
        R::Error(s) => {
            out.push(b'-');
            out.extend_from_slice(s);
            out.extend_from_slice(b"\r\n");
        }
        R::Int(s) => {
            out.push(b':');
            out.extend_from_slice(s);
            out.extend_from_slice(b"\r\n");
        }
        R::Bulk(None) => out.extend_from_slice(b"$-1\r\n"),
        R::Bulk(Some(s)) => {
            out.extend_from_slice(format!("${}\r\n", s.len()).as_bytes());
            out.extend_from_slice(s);
            out.extend_from_slice(b"\r\n");
        }
        R::Arr(None) => out.extend_from_slice(b"*-1\r\n"),
        R::Arr(Some(v)) => {
            out.extend_from_slice(format!("*{}\r\n", v.len()).as_bytes());
            for x in v {
                ref_encode(x, out);
            }
        }
    }
}

fn resp_of_r(r: &R) -> RespVec {
    match r {
        R::Simple(s) => Resp::Simple(s.clone()),
        R::Error(s) => Resp::Error(s.clone()),
        R::Int(s) => Resp::Integer(s.clone()),
        R::Bulk(None) => Resp::Bulk(BulkStr::Nil),
        R::Bulk(Some(s)) => Resp::Bulk(BulkStr::Str(s.clone())),
        R::Arr(None) => Resp::Arr(Array::Nil),
        R::Arr(Some(v)) => Resp::Arr(Array::Arr(v.iter().map(resp_of_r).collect())),
    }
}

fn gen_line(rng: &mut Rng) -> Vec<u8> {
    let n = rng.below(12) as usize;
    (0..n).map(|_| *rng.pick(b"abcXYZ019 -_:{}$*+")).collect()
}

fn gen_payload(rng: &mut Rng) -> Vec<u8> {
    match rng.below(5) {
        0 => vec![],
        1 => b"\r\n".to_vec(),
        2 => {
            let n = rng.below(40) as usize;
            (0..n).map(|_| *rng.pick(&[b'\r', b'\n', b'$', b'*', b'a', 0u8, 255u8, b'1'])).collect()
        }
        3 => {
            let n = rng.below(300) as usize;
            rng.bytes(n)
        }
        _ => gen_line(rng),
    }
}

fn gen_value(rng: &mut Rng, depth: usize) -> R {
    let k = if depth >= 4 { rng.below(5) } else { rng.below(7) };
    match k {
        0 => R::Simple(gen_line(rng)),
        1 => R::Error(gen_line(rng)),
        2 => R::Int(format!("{}", rng.next() as i64 >> rng.below(60)).into_bytes()),
        3 => R::Bulk(None),
        4 => R::Bulk(Some(gen_payload(rng))),
        5 => R::Arr(None),
        _ => {
            let n = rng.below(5) as usize;
            R::Arr(Some((0..n).map(|_| gen_value(rng, depth + 1)).collect()))
        }
    }
}

// ---------------------------------------------------------------------------
// chopped byte pipes

#[derive(Clone, Debug, Default)]
pub struct PipeFaults {
    /// drop the connection after this many bytes travelled in direction a->b
    pub reset_after_ab: Option<u64>,
    pub reset_after_ba: Option<u64>,
    /// stall once for `ms` when this many bytes have travelled a->b / b->a
    pub stall_ab: Option<(u64, u64)>,
    pub stall_ba: Option<(u64, u64)>,
    pub max_frag: usize,
    pub max_delay_ms: u64,
    pub buf: usize,
}

pub struct PipeStats {
    pub ab: AtomicU64,
    pub ba: AtomicU64,
    pub resets: AtomicU64,
    pub stalls: AtomicU64,
    pub frags: AtomicU64,
}

async fn forward(mut from: tokio::io::ReadHalf<DuplexStream>, mut to: tokio::io::WriteHalf<DuplexStream>, seed: u64, dir: u64, max_frag: usize, max_delay: u64, reset_after: Option<u64>, stall: Option<(u64, u64)>, counter: Arc<PipeStats>, kill: Arc<tokio::sync::Notify>) {
    let mut total = 0u64;
    let mut idx = 0u64;
    let mut stalled = false;
    let mut buf = vec![0u8; max_frag.max(1)];
    loop {
        idx += 1;
        let want = 1 + (hash3(seed, dir, idx) as usize) % max_frag.max(1);
        let n = tokio::select! {
            r = from.read(&mut buf[..want]) => match r { Ok(0) | Err(_) => break, Ok(n) => n },
            _ = kill.notified() => break,
        };
        if max_delay > 0 {
            let d = hash3(seed, dir ^ 0x77, idx) % (max_delay + 1);
            if d > 0 {
                tokio::time::sleep(Duration::from_millis(d)).await;
            }
        }
        if let Some((at, ms)) = stall {
            if !stalled && total + n as u64 >= at {
                stalled = true;
                counter.stalls.fetch_add(1, Ordering::SeqCst);
                tokio::time::sleep(Duration::from_millis(ms)).await;
            }
        }
        let mut n_send = n;
        let mut die = false;
        if let Some(lim) = reset_after {
            if total + n as u64 >= lim {
                n_send = (lim - total) as usize;
                die = true;
            }
        }
        if n_send > 0 && to.write_all(&buf[..n_send]).await.is_err() {
            break;
        }
        total += n_send as u64;
        counter.frags.fetch_add(1, Ordering::SeqCst);
        if dir == 1 {
            counter.ab.fetch_add(n_send as u64, Ordering::SeqCst);
        } else {
            counter.ba.fetch_add(n_send as u64, Ordering::SeqCst);
        }
        if die {
            counter.resets.fetch_add(1, Ordering::SeqCst);
            kill.notify_waiters();
            break;
        }
    }
    let _ = to.shutdown().await;
    kill.notify_waiters();
}

/// Two stream ends connected through a fragmenting, delaying, possibly breaking channel.
pub fn chop_pipe(seed: u64, f: &PipeFaults, stats: Arc<PipeStats>) -> (DuplexStream, DuplexStream) {
    let buf = f.buf.max(1);
    let (a_user, a_inner) = tokio::io::duplex(buf);
    let (b_inner, b_user) = tokio::io::duplex(buf);
    let (a_r, a_w) = tokio::io::split(a_inner);
    let (b_r, b_w) = tokio::io::split(b_inner);
    let kill = Arc::new(tokio::sync::Notify::new());
    tokio::spawn(forward(a_r, b_w, seed, 1, f.max_frag, f.max_delay_ms, f.reset_after_ab, f.stall_ab, stats.clone(), kill.clone()));
    tokio::spawn(forward(b_r, a_w, seed, 2, f.max_frag, f.max_delay_ms, f.reset_after_ba, f.stall_ba, stats, kill));
    (a_user, b_user)
}

// ---------------------------------------------------------------------------
// byte-level backend ("echo Redis") behind the repo's ConnFactory seam

pub struct BackendPlan {
    pub seed: u64,
    /// per connection attempt: None = refuse, Some(faults)
    pub conns: Mutex<Vec<Option<PipeFaults>>>,
    pub default: PipeFaults,
    pub attempts: AtomicU64,
    pub refused: AtomicU64,
    pub executed: Mutex<Vec<(u64, Vec<u8>)>>,
    pub stats: Arc<PipeStats>,
    /// bytes appended to every value reply
    pub reply_pad: usize,
    /// 0 = healthy, 1 = refuse, 2 = accept and never answer: what attempts beyond `conns` meet
    pub tail: u8,
}

pub struct ByteConnFactory {
    pub plan: Arc<BackendPlan>,
}

async fn echo_backend(mut stream: DuplexStream, plan: Arc<BackendPlan>, conn_no: u64) {
    let mut buf: Vec<u8> = vec![];
    let mut tmp = vec![0u8; 4096];
    loop {
        // serve every complete request in the buffer
        loop {
            match ref_parse(&buf, 0) {
                Ok(Some((req, used))) => {
                    buf.drain(..used);
                    let reply = match &req {
                        R::Arr(Some(v)) if !v.is_empty() => {
                            let name = match &v[0] {
                                R::Bulk(Some(s)) => String::from_utf8_lossy(s).to_uppercase(),
                                _ => String::new(),
                            };
                            let key = match v.get(1) {
                                Some(R::Bulk(Some(s))) => s.clone(),
                                _ => vec![],
                            };
                            plan.executed.lock().push((conn_no, key.clone()));
                            match name.as_str() {
                                "GET" | "SET" | "ECHO" => {
                                    let mut r = b"r:".to_vec();
                                    r.extend_from_slice(&key);
                                    r.extend(std::iter::repeat(b'#').take(plan.reply_pad));
                                    R::Bulk(Some(r))
                                }
                                "PING" => R::Simple(b"PONG".to_vec()),
                                _ => R::Simple(b"OK".to_vec()),
                            }
                        }
                        _ => R::Error(b"ERR backend cannot parse".to_vec()),
                    };
                    let mut out = vec![];
                    ref_encode(&reply, &mut out);
                    if stream.write_all(&out).await.is_err() {
                        return;
                    }
                }
                Ok(None) => break,
                Err(_) => return,
            }
        }
        match stream.read(&mut tmp).await {
            Ok(0) | Err(_) => return,
            Ok(n) => buf.extend_from_slice(&tmp[..n]),
        }
    }
}

impl ConnFactory for ByteConnFactory {
    type Pkt = RespPacket;

    fn create_conn(&self, _addr: SocketAddr) -> Pin<Box<dyn Future<Output = CreateConnResult<Self::Pkt>> + Send>> {
        let plan = self.plan.clone();
        Box::pin(async move {
            tokio::time::sleep(Duration::from_millis(1)).await;
            let n = plan.attempts.fetch_add(1, Ordering::SeqCst);
            let faults = {
                let mut c = plan.conns.lock();
                if c.is_empty() {
                    match plan.tail {
                        1 => None,
                        2 => Some(PipeFaults { stall_ab: Some((0, 3_600_000)), ..plan.default.clone() }),
                        _ => Some(plan.default.clone()),
                    }
                } else {
                    c.remove(0)
                }
            };
            let faults = match faults {
                Some(f) => f,
                None => {
                    plan.refused.fetch_add(1, Ordering::SeqCst);
                    return Err(BackendError::Io(std::io::Error::new(std::io::ErrorKind::ConnectionRefused, "refused")));
                }
            };
            let (proxy_end, backend_end) = chop_pipe(hash3(plan.seed, stream_id("backend"), n), &faults, plan.stats.clone());
            tokio::spawn(echo_backend(backend_end, plan.clone(), n));
            // the same wiring as proxy::backend::create_conn, over the simulated stream
            let (encoder, decoder) = new_simple_packet_codec::<RespPacket, RespPacket>();
            let frame = RespCodec::new(encoder, decoder).framed(proxy_end);
            let (writer, reader) = frame.split();
            let writer = writer.sink_map_err(|e| match e {
                EncodeError::Io(err) => BackendError::Io(err),
                EncodeError::NotReady(_) => BackendError::InvalidState,
            });
            let reader = reader.map_err(|e| match e {
                DecodeError::InvalidProtocol => BackendError::InvalidProtocol,
                DecodeError::Io(e) => BackendError::Io(e),
            });
            let sink: ConnSink<RespPacket> = Box::pin(writer);
            let stream: ConnStream<RespPacket> = Box::pin(reader);
            Ok((sink, stream))
        })
    }
}

type ByteHandler = SharedForwardHandler<SimClientFactory, ByteConnFactory>;

fn spawn_byte_proxy(net: &Net, pp: &ProxyParams, plan: Arc<BackendPlan>) -> Arc<Session<ByteHandler>> {
    let addr = "10.0.0.1:7000";
    let config = Arc::new(proxy_config(addr, pp));
    let client_factory = SimClientFactory { net: net.clone(), src: format!("proxy:{}#1", addr), timeout: Duration::from_secs(1) };
    let slow = Arc::new(SlowRequestLogger::new(config.clone()));
    let meta_map = Arc::new(ArcSwap::new(Arc::new(MetaMap::empty())));
    let registry = Arc::new(TrackedFutureRegistry::default());
    let (stopped_tx, _rx) = mpsc::unbounded();
    let handler = SharedForwardHandler::new(config.clone(), Arc::new(client_factory), slow.clone(), meta_map, Arc::new(ByteConnFactory { plan }), registry, stopped_tx);
    Arc::new(Session::new(1, handler, slow, config))
}

fn cmd_bytes(parts: &[&[u8]]) -> Vec<u8> {
    let mut out = format!("*{}\r\n", parts.len()).into_bytes();
    for p in parts {
        out.extend_from_slice(format!("${}\r\n", p.len()).as_bytes());
        out.extend_from_slice(p);
        out.extend_from_slice(b"\r\n");
    }
    out
}

const SETCLUSTER_ALL: &[&[u8]] = &[b"UMCTL", b"SETCLUSTER", b"v2", b"1", b"NOFLAG", b"c0", b"10.0.0.1:6000", b"1", b"0-16383"];

// ---------------------------------------------------------------------------

pub struct ConnCheck {
    pub prop: &'static str,
}

impl Check for ConnCheck {
    fn id(&self) -> &'static str {
        self.prop
    }
    fn engine(&self) -> &'static str {
        "E3 conn-sim"
    }
    fn budget(&self, tier: Tier) -> (u64, Duration) {
        match (self.prop, tier) {
            ("C15", Tier::Quick) => (4000, Duration::from_secs(40)),
            ("C15", Tier::Thorough) => (2_000_000, Duration::from_secs(1200)),
            ("C08", Tier::Quick) => (1500, Duration::from_secs(45)),
            ("C08", Tier::Thorough) => (300_000, Duration::from_secs(1200)),
            (_, Tier::Quick) => (1200, Duration::from_secs(45)),
            (_, Tier::Thorough) => (300_000, Duration::from_secs(1200)),
        }
    }
    fn gen_plan(&self, seed: u64, index: u64, _tier: Tier) -> Value {
        let mut rng = Rng::new(seed, "plan");
        match self.prop {
            "C15" => json!({"engine": "conn", "mode": "codec", "seed": seed, "ops": (0..rng.range(1, 8)).collect::<Vec<u64>>(), "framed": index % 8 == 7}),
            "C08" => {
                let n = *rng.pick(&[1u64, 2, 3, 5, 8, 20, 60, 200]);
                let level = index % 3;
                let value_size = *rng.pick(&[0u64, 3, 30, 700, 3500]);
                let backend_conn_num = rng.range(1, 3);
                // fault positions are drawn inside the byte streams this pipeline will really
                // produce (a reset at byte 5000 of a 60-byte exchange never fires), with a tail
                // of positions beyond the end
                let est_req = (n * (32 + value_size / 2) / backend_conn_num).max(8);
                // large replies + a small client-side buffer = back-pressure on the session's writer
                let reply_pad = *rng.pick(&[0u64, 0, 0, 100, 4000, 20000]);
                let est_rep = (n * (12 + reply_pad) / backend_conn_num).max(4);
                let mut conns = vec![];
                if level > 0 {
                    for _ in 0..rng.range(1, 6) {
                        let kind = rng.below(6);
                        let inside = rng.chance(3, 4);
                        let pos_req = if inside { rng.below(est_req + 1) } else { rng.below(6000) };
                        let pos_rep = if inside { rng.below(est_rep + 1) } else { rng.below(3000) };
                        conns.push(match kind {
                            0 => json!(null), // refused
                            1 => json!({"reset_ab": pos_req}),
                            2 => json!({"reset_ba": pos_rep}),
                            // 3_600_000 ms = the peer never answers again ("forever" for the oracle's bound)
                            3 => json!({"stall_ab": [pos_req, *rng.pick(&[50u64, 2900, 3100, 9000, 3_600_000])]}),
                            4 => json!({"stall_ba": [pos_rep, *rng.pick(&[50u64, 2900, 3100, 9000, 3_600_000])]}),
                            _ => json!({}),
                        });
                    }
                }
                // what every connection attempt after the listed ones meets: a healthy backend, one
                // that refuses for good, or one that accepts and never answers
                let tail = if level > 0 { *rng.pick(&["good", "good", "good", "good", "refuse", "blackhole"]) } else { "good" };
                json!({
                    "engine": "conn", "mode": "pipeline", "seed": seed, "tail": tail,
                    "cfg": {"n": n, "batch": rng.below(3), "backend_conn_num": backend_conn_num, "value_size": value_size,
                            "client_frag": (*rng.pick(&[1u64, 2, 7, 64, 4096])).max(n * reply_pad / 100_000), "backend_frag": (*rng.pick(&[1u64, 3, 17, 512, 8192])).max(n * reply_pad / 100_000), "delay_ms": *rng.pick(&[0u64, 0, 1, 5]), "buf": *rng.pick(&[7u64, 64, 1024, 65536]),
                            "reply_pad": reply_pad, "client_buf": *rng.pick(&[7u64, 64, 1024, 65536])},
                    "ops": (0..n).collect::<Vec<u64>>(),
                    "conns": conns,
                })
            }
            _ => {
                let n = rng.range(1, 6);
                let ops: Vec<Value> = (0..n).map(|_| json!({"kind": rng.below(32), "a": rng.next(), "b": rng.next()})).collect();
                json!({"engine": "conn", "mode": "hostile", "seed": seed, "meta_first": rng.chance(2, 3), "active_redirection": rng.chance(1, 3), "frag": *rng.pick(&[1u64, 3, 64, 65536]), "ops": ops})
            }
        }
    }
    fn execute(&self, plan: &Value, want_sample: bool) -> RunRecord {
        let plan = plan.clone();
        match self.prop {
            "C15" => {
                if plan["framed"].as_bool().unwrap_or(false) {
                    run_sim(async move { run_codec_framed(&plan, want_sample).await })
                } else {
                    run_codec(&plan, want_sample)
                }
            }
            "C08" => run_sim(async move { run_pipeline(&plan, want_sample).await }),
            _ => run_sim(async move { run_hostile(&plan, want_sample).await }),
        }
    }
    fn limits(&self, _plan: Option<&Value>) -> ChildLimits {
        match self.prop {
            "C16" => ChildLimits { wall_timeout: Duration::from_secs(20), rlimit_as: Some(2 << 30), stack_bytes: 8 << 20 },
            _ => ChildLimits { wall_timeout: Duration::from_secs(120), rlimit_as: None, stack_bytes: 16 << 20 },
        }
    }
    fn abnormal_exit(&self, exit: &ExitKind, output: &str) -> Option<Violation> {
        if self.prop != "C16" {
            return None;
        }
        let (tag, sig) = match exit {
            ExitKind::Signaled(s) => ("process-killed-by-signal", format!("process-killed-by-signal:{}", s)),
            ExitKind::TimedOut => ("proxy-wedged", "proxy-wedged:wall-clock-watchdog".to_string()),
            ExitKind::Exited(101) => ("panic-escaped", format!("panic-escaped:{}", output.split(" @ ").nth(1).unwrap_or("").split(' ').next().unwrap_or(""))),
            ExitKind::Exited(c) => ("process-aborted", format!("process-aborted:{}", c)),
        };
        Some(Violation::with_sig("C16", tag, sig, format!("the proxy process ended abnormally while handling client input: {:?} {}", exit, output)))
    }
    fn meta(&self) -> Meta {
        let rule: &'static str = match self.prop {
            "C15" => "plan = pipeline of 1-8 generated RESP values (depth <= 4, nil bulk/array, empty, binary payloads with CR/LF, up to 300 B) encoded with /repo's encoder; (1) one-piece decoding equals the generated values and consumes exactly the bytes; (2) EVERY single split point (streams <= 160 B; 32 sampled ones beyond) and 8 random multi-cut schedules are fed incrementally to the session decoder (Box<RespPacket>), the RespVec decoder and the client-side optional-multi decoder: same packet sequence, consumed bytes == bytes of completed packets after every feed, indexed packets carry the original bytes; (3) 10 kinds of non-RESP damage (bad prefix, non-digit length, payload longer/shorter than declared, missing CR, LF only, negative lengths, trailing garbage inside CRLF) must give an error or keep waiting, never a value. One run in 8 repeats (1)-(2) through tokio Framed<RespCodec> over a chopped duplex stream with 1-16 byte fragments. Non-trivial = a pipeline with >=1 array and >=1 binary bulk string.",
            "C08" => "plan = real proxy owning all slots on 1-3 byte-level backend connections to an echo backend (reply = function of the request's unique id); a client pipeline of 1-200 GET/SET requests (values 0-3500 B, replies padded by 0-20000 B) written in 1-4096 byte fragments, by a client that reads while it writes through a 7 B-64 KiB pipe, through the real handle_session; batching {disabled,fixed,dynamic}; backend streams fragmented (1-8192 B), delayed, 7 B-64 KiB buffers (backpressure), and per connection attempt one of: refused, reset at byte n of the request or reply stream, stall (50 ms-9 s, i.e. below/above the 3 s backend timeout, or for good) at byte n; three quarters of the fault positions are drawn inside the byte streams the pipeline really produces; every attempt after the listed ones meets a healthy backend, one that refuses for good, or one that accepts and never answers. One third fault-free. Oracle on the client byte stream with the harness's own RESP reader. Non-trivial = >=1 fault fired or pipeline >= 20; distinct = distinct (reply-class sequence, fault counters).",
            _ => "plan = 1-6 hostile inputs on connection A of a real proxy (before/after metadata, fragmented): huge declared array/bulk lengths up to 2^63-1, nesting depth up to 100000, truncated packets, garbage, and well-formed commands of every family with extreme/missing/non-UTF-8 arguments (EVAL numkeys, UMFORWARD times, UMCTL SETCLUSTER/SETREPL/PRECHECK junk, CONFIG SET, CLUSTER KEYSLOT, AUTH, blocking pops with timeout 0/1, MSET odd arity, huge slot ranges and range counts with and without migration tags, arguments that are not bulk strings for 26 commands, valid SETCLUSTER with unusual cluster names followed by CLUSTER NODES/SLOTS/INFO, slow log switched on followed by long multi-byte arguments ...), each on its own connection, every complete request of an input must be answered or the connection closed; then connection B sends PING. Child under RLIMIT_AS 2 GiB, 8 MiB stack (as the production main thread), 20 s wall-clock watchdog. Non-trivial = the hostile connection was answered or closed and B was served.",
        };
        Meta {
            level: "exploration",
            rule,
            real: vec!["protocol::{stateless, encoder, packet, codec, resp}", "proxy::session::handle_session (unmodified body over SimStream, hook H5)", "proxy::{executor, command, manager, sender, backend::handle_backend/handle_conn, blocking, reply}", "common::batch (hook H4: virtual clock)"],
            stubs: vec!["TCP (in-memory chopped duplex streams)", "Redis (byte-level echo backend with the harness's own RESP reader/writer)"],
            assumptions: vec!["C16 time bound: 20 s wall clock per child and 10 virtual seconds per request; quadratic re-parsing of fragmented input is not flagged, non-termination is"],
            fault_kinds: vec!["read_write_fragmentation", "backend_conn_refused", "backend_conn_reset", "backend_stall", "backpressure_small_buffer"],
        }
    }
}

// ---------------------------------------------------------------------------
// C15 — codec level

fn cuts_for(len: usize, rng: &mut Rng) -> Vec<Vec<usize>> {
    let mut schedules: Vec<Vec<usize>> = vec![];
    if len <= 160 {
        for c in 1..len {
            schedules.push(vec![c]);
        }
    } else {
        for _ in 0..32 {
            schedules.push(vec![1 + rng.below(len as u64 - 1) as usize]);
        }
    }
    for _ in 0..8 {
        let k = rng.range(2, 12) as usize;
        let mut v: Vec<usize> = (0..k).map(|_| 1 + rng.below(len.max(2) as u64 - 1) as usize).collect();
        v.sort();
        v.dedup();
        schedules.push(v);
    }
    // byte by byte
    if len <= 400 {
        schedules.push((1..len).collect());
    }
    schedules
}

fn run_codec(plan: &Value, want_sample: bool) -> RunRecord {
    let mut rec = RunRecord::default();
    let seed = plan["seed"].as_u64().unwrap_or(0);
    let mut rng = Rng::new(seed, "codec");
    let n = plan["ops"].as_array().map(|a| a.len()).unwrap_or(1).max(1);
    let values: Vec<R> = (0..n).map(|_| gen_value(&mut rng, 0)).collect();
    let mut stream: Vec<u8> = vec![];
    let mut lens = vec![];
    for v in values.iter() {
        let mut b = vec![];
        if undermoon::protocol::resp_to_buf(&mut b, &resp_of_r(v)).is_err() {
            rec.violate(Violation::new("C15", "encode-failed", format!("{:?}", v)));
            return rec;
        }
        let mut mine = vec![];
        ref_encode(v, &mut mine);
        if mine != b {
            rec.violate(Violation::new("C15", "encoding-not-resp", format!("value {:?} is encoded as {:?}, RESP says {:?}", v, String::from_utf8_lossy(&b), String::from_utf8_lossy(&mine))));
        }
        lens.push(b.len());
        stream.extend_from_slice(&b);
    }
    // (1) one piece
    {
        let mut buf = BytesMut::from(&stream[..]);
        let mut got = vec![];
        loop {
            match RespVec::decode(&mut buf, ()) {
                Ok(Some(v)) => got.push(r_of_resp(&v)),
                Ok(None) => break,
                Err(e) => {
                    rec.violate(Violation::new("C15", "own-encoding-rejected", format!("decoding {:?} failed with {:?}", String::from_utf8_lossy(&stream), e)));
                    break;
                }
            }
        }
        if got != values {
            rec.violate(Violation::new("C15", "roundtrip-differs", format!("stream {:?}: decoded {:?}, generated {:?}", String::from_utf8_lossy(&stream), got, values)));
        }
        if !buf.is_empty() {
            rec.violate(Violation::new("C15", "bytes-left-over", format!("{} bytes left after decoding all packets", buf.len())));
        }
    }
    // (2) split feeds
    let boundaries: Vec<usize> = lens.iter().scan(0usize, |acc, l| {
        *acc += l;
        Some(*acc)
    }).collect();
    let mut feeds = 0u64;
    for cuts in cuts_for(stream.len(), &mut rng) {
        for decoder_kind in 0..3 {
            let (_e1, mut d_session) = new_simple_packet_codec::<Box<RespPacket>, Box<RespPacket>>();
            let (mut e_multi, mut d_multi) = new_optional_multi_packet_codec::<Vec<Vec<u8>>, RespVec>();
            if decoder_kind == 2 {
                // announce what the client expects: one Multi of n replies (n == 1 -> Single)
                let hint_pkt = if n == 1 { OptionalMulti::Single(vec![b"X".to_vec()]) } else { OptionalMulti::Multi((0..n).map(|_| vec![b"X".to_vec()]).collect()) };
                let _ = e_multi.encode(hint_pkt, |_| {});
            }
            let mut buf = BytesMut::new();
            let mut got: Vec<R> = vec![];
            let mut fed = 0usize;
            let mut points = cuts.clone();
            points.push(stream.len());
            let mut prev = 0usize;
            let mut failed = false;
            for p in points {
                if p <= prev {
                    continue;
                }
                buf.extend_from_slice(&stream[prev..p]);
                fed = p;
                prev = p;
                feeds += 1;
                loop {
                    let before = buf.len();
                    let item: Result<Option<Vec<(R, Option<Vec<u8>>)>>, DecodeError> = match decoder_kind {
                        0 => d_session.decode(&mut buf).map(|o| {
                            o.map(|pkt| {
                                let raw = match &*pkt {
                                    RespPacket::Indexed(ix) => Some(ix.get_data().to_vec()),
                                    _ => None,
                                };
                                vec![(r_of_resp(&pkt.to_resp_vec()), raw)]
                            })
                        }),
                        1 => RespVec::decode(&mut buf, ()).map(|o| o.map(|v| vec![(r_of_resp(&v), None)])),
                        _ => d_multi.decode(&mut buf).map(|o| {
                            o.map(|m| match m {
                                OptionalMulti::Single(v) => vec![(r_of_resp(&v), None)],
                                OptionalMulti::Multi(vs) => vs.iter().map(|v| (r_of_resp(v), None)).collect(),
                            })
                        }),
                    };
                    match item {
                        Ok(Some(items)) => {
                            for (v, raw) in items {
                                if let Some(raw) = raw {
                                    let idx = got.len();
                                    let start = if idx == 0 { 0 } else { boundaries[idx - 1] };
                                    let end = boundaries.get(idx).cloned().unwrap_or(stream.len());
                                    if raw != stream[start..end] {
                                        rec.violate(Violation::new("C15", "forwarded-bytes-modified", format!("packet #{} carries {:?}, the stream had {:?}", idx, String::from_utf8_lossy(&raw), String::from_utf8_lossy(&stream[start..end]))));
                                    }
                                }
                                got.push(v);
                            }
                        }
                        Ok(None) => {
                            if buf.len() != before && decoder_kind != 2 {
                                rec.violate(Violation::new("C15", "consumed-incomplete-packet", format!("decoder returned no packet but consumed {} bytes (fed {} of {:?})", before - buf.len(), fed, String::from_utf8_lossy(&stream))));
                            }
                            break;
                        }
                        Err(e) => {
                            rec.violate(Violation::new("C15", "split-read-rejected", format!("decoder kind {} failed with {:?} after feeding {} bytes of valid stream {:?} (cuts {:?})", decoder_kind, e, fed, String::from_utf8_lossy(&stream), cuts)));
                            failed = true;
                            break;
                        }
                    }
                }
                if failed {
                    break;
                }
                if decoder_kind != 2 {
                    // nothing of an incomplete packet may be consumed
                    let done_bytes = if got.is_empty() { 0 } else { boundaries[got.len().min(boundaries.len()) - 1] };
                    if fed - buf.len() != done_bytes {
                        rec.violate(Violation::new("C15", "consumed-incomplete-packet", format!("after feeding {} bytes: {} consumed but completed packets span {} bytes (stream {:?})", fed, fed - buf.len(), done_bytes, String::from_utf8_lossy(&stream))));
                    }
                }
            }
            if !failed && got != values {
                rec.violate(Violation::new("C15", "split-sequence-differs", format!("decoder kind {} with cuts {:?} on {:?}: {:?} instead of {:?}", decoder_kind, cuts, String::from_utf8_lossy(&stream), got, values)));
            }
        }
    }
    // (3) not RESP
    let mut damaged = 0u64;
    for (vi, v) in values.iter().enumerate() {
        let mut enc = vec![];
        ref_encode(v, &mut enc);
        let mut variants: Vec<(&'static str, Vec<u8>)> = vec![];
        let mut bad_prefix = enc.clone();
        bad_prefix[0] = *rng.pick(b"!#%&/=?@AZaz ~");
        variants.push(("bad-prefix", bad_prefix));
        if let Some(p) = enc.windows(2).position(|w| w == b"\r\n") {
            // first line: damage its terminator / its number
            let mut lf_only = enc.clone();
            lf_only.remove(p); // "...\n" without CR
            variants.push(("lf-without-cr", lf_only));
            let mut wrong_cr = enc.clone();
            wrong_cr[p] = b'x';
            variants.push(("byte-before-lf-is-not-cr", wrong_cr));
            if matches!(v, R::Bulk(Some(_)) | R::Arr(Some(_))) {
                let mut nondigit = enc.clone();
                nondigit.insert(1, b'z');
                variants.push(("non-digit-length", nondigit));
                let mut neg = vec![enc[0]];
                neg.extend_from_slice(b"-7\r\n");
                variants.push(("negative-length-other-than-minus-one", neg));
            }
        }
        if let R::Bulk(Some(s)) = v {
            // payload longer than declared: "$3\r\nabcd\r\n"
            let mut longer = format!("${}\r\n", s.len()).into_bytes();
            longer.extend_from_slice(s);
            longer.extend_from_slice(b"XY\r\n");
            variants.push(("bulk-payload-not-followed-by-crlf", longer));
            let mut tail = format!("${}\r\n", s.len()).into_bytes();
            tail.extend_from_slice(s);
            tail.extend_from_slice(b"\rX");
            variants.push(("bulk-payload-followed-by-cr-x", tail));
        }
        for (kind, bytes) in variants {
            // the damaged packet followed by a valid one, as it would sit in a stream
            let mut s = bytes.clone();
            s.extend_from_slice(b"+NEXT\r\n");
            if matches!(ref_parse(&s, 0), Ok(Some(_))) && kind != "bad-prefix" {
                // the damage happened to produce valid RESP (e.g. payload bytes that look like a terminator): skip
                if ref_parse(&bytes, 0).map(|x| x.is_some()).unwrap_or(false) {
                    continue;
                }
            }
            damaged += 1;
            let mut buf = BytesMut::from(&s[..]);
            match RespVec::decode(&mut buf, ()) {
                Err(_) | Ok(None) => {}
                Ok(Some(val)) => {
                    rec.violate(Violation::with_sig("C15", "non-resp-accepted", format!("non-resp-accepted:{}", kind), format!("value #{}: the damaged encoding {:?} ({}) is not RESP but decodes to the valid value {:?}", vi, String::from_utf8_lossy(&bytes), kind, r_of_resp(&val))));
                }
            }
        }
    }
    rec.probe_n("split_feeds", feeds);
    rec.probe_n("damaged_encodings_tried", damaged);
    rec.steps = feeds;
    let has_arr = values.iter().any(|v| matches!(v, R::Arr(Some(_))));
    let has_bin = values.iter().any(|v| matches!(v, R::Bulk(Some(s)) if s.iter().any(|b| *b == b'\r' || *b == b'\n' || *b > 127)));
    rec.nontrivial = has_arr && has_bin || values.len() >= 3;
    let mut th = TraceHash::new();
    th.add(&stream);
    rec.trace_hash = th.0;
    rec.sched_hash = th.0;
    rec.state_hash = th.0;
    rec.fault("read_write_fragmentation");
    if want_sample {
        rec.sample = Some(json!({"stream": String::from_utf8_lossy(&stream).chars().take(400).collect::<String>(), "packets": values.len()}));
    }
    rec
}

async fn run_codec_framed(plan: &Value, want_sample: bool) -> RunRecord {
    let mut rec = RunRecord::default();
    let seed = plan["seed"].as_u64().unwrap_or(0);
    let mut rng = Rng::new(seed, "codec");
    let n = plan["ops"].as_array().map(|a| a.len()).unwrap_or(1).max(1);
    let values: Vec<R> = (0..n).map(|_| gen_value(&mut rng, 0)).collect();
    let mut stream: Vec<u8> = vec![];
    for v in values.iter() {
        ref_encode(v, &mut stream);
    }
    let stats = Arc::new(PipeStats { ab: AtomicU64::new(0), ba: AtomicU64::new(0), resets: AtomicU64::new(0), stalls: AtomicU64::new(0), frags: AtomicU64::new(0) });
    let faults = PipeFaults { max_frag: *rng.pick(&[1usize, 2, 5, 16]), max_delay_ms: rng.below(3), buf: *rng.pick(&[1usize, 7, 64]), ..Default::default() };
    let (mut a, b) = chop_pipe(seed, &faults, stats.clone());
    let (enc, dec) = new_simple_packet_codec::<Box<RespPacket>, Box<RespPacket>>();
    let mut framed = RespCodec::new(enc, dec).framed(SimStream::from_io(b));
    let to_send = stream.clone();
    let writer = tokio::spawn(async move {
        let _ = a.write_all(&to_send).await;
        let _ = a.shutdown().await;
        // keep the read half alive until the reader is done
        tokio::time::sleep(Duration::from_secs(5)).await;
    });
    let mut got = vec![];
    loop {
        match tokio::time::timeout(Duration::from_secs(30), framed.next()).await {
            Ok(Some(Ok(pkt))) => got.push(r_of_resp(&pkt.to_resp_vec())),
            Ok(Some(Err(e))) => {
                rec.violate(Violation::new("C15", "split-read-rejected", format!("Framed decoder failed with {:?} on valid stream {:?}", e, String::from_utf8_lossy(&stream))));
                break;
            }
            Ok(None) => break,
            Err(_) => {
                rec.violate(Violation::new("C15", "framed-stalled", "no packet and no EOF within 30 virtual seconds".to_string()));
                break;
            }
        }
    }
    writer.abort();
    if got != values && rec.violations.is_empty() {
        rec.violate(Violation::new("C15", "split-sequence-differs", format!("Framed over {}-byte fragments: {:?} instead of {:?}", faults.max_frag, got, values)));
    }
    rec.probe_n("fragments", stats.frags.load(Ordering::SeqCst));
    rec.fault("read_write_fragmentation");
    rec.nontrivial = true;
    let mut th = TraceHash::new();
    th.add(&stream);
    th.add_u64(faults.max_frag as u64);
    rec.trace_hash = th.0;
    rec.sched_hash = th.0;
    rec.state_hash = th.0;
    if want_sample {
        rec.sample = Some(json!({"framed": true, "stream_len": stream.len(), "max_frag": faults.max_frag}));
    }
    rec
}

// ---------------------------------------------------------------------------
// C08 — pipelines through the real session and backend code

fn faults_of(v: &Value, cfg: &Value) -> Option<PipeFaults> {
    if v.is_null() {
        return None;
    }
    Some(PipeFaults {
        reset_after_ab: v.get("reset_ab").and_then(|x| x.as_u64()),
        reset_after_ba: v.get("reset_ba").and_then(|x| x.as_u64()),
        stall_ab: v.get("stall_ab").and_then(|x| x.as_array()).map(|a| (a[0].as_u64().unwrap_or(0), a[1].as_u64().unwrap_or(0))),
        stall_ba: v.get("stall_ba").and_then(|x| x.as_array()).map(|a| (a[0].as_u64().unwrap_or(0), a[1].as_u64().unwrap_or(0))),
        max_frag: cfg["backend_frag"].as_u64().unwrap_or(512) as usize,
        max_delay_ms: cfg["delay_ms"].as_u64().unwrap_or(0),
        buf: cfg["buf"].as_u64().unwrap_or(1024) as usize,
    })
}

async fn run_pipeline(plan: &Value, want_sample: bool) -> RunRecord {
    let mut rec = RunRecord::default();
    let seed = plan["seed"].as_u64().unwrap_or(0);
    let cfg = &plan["cfg"];
    let net = Net::new(seed, 2);
    let default = PipeFaults { max_frag: cfg["backend_frag"].as_u64().unwrap_or(512) as usize, max_delay_ms: cfg["delay_ms"].as_u64().unwrap_or(0), buf: cfg["buf"].as_u64().unwrap_or(1024) as usize, ..Default::default() };
    let stats = Arc::new(PipeStats { ab: AtomicU64::new(0), ba: AtomicU64::new(0), resets: AtomicU64::new(0), stalls: AtomicU64::new(0), frags: AtomicU64::new(0) });
    let conns: Vec<Option<PipeFaults>> = plan["conns"].as_array().map(|a| a.iter().map(|v| faults_of(v, cfg)).collect()).unwrap_or_default();
    let bplan = Arc::new(BackendPlan { seed, conns: Mutex::new(conns), default, attempts: AtomicU64::new(0), refused: AtomicU64::new(0), executed: Mutex::new(vec![]), stats: stats.clone(), reply_pad: cfg["reply_pad"].as_u64().unwrap_or(0) as usize, tail: match plan["tail"].as_str() { Some("refuse") => 1, Some("blackhole") => 2, _ => 0 } });
    let pp = ProxyParams { backend_conn_num: cfg["backend_conn_num"].as_u64().unwrap_or(1) as usize, batch: cfg["batch"].as_u64().unwrap_or(0) as u8, ..Default::default() };
    let session = spawn_byte_proxy(&net, &pp, bplan.clone());
    let cstats = Arc::new(PipeStats { ab: AtomicU64::new(0), ba: AtomicU64::new(0), resets: AtomicU64::new(0), stalls: AtomicU64::new(0), frags: AtomicU64::new(0) });
    let cfaults = PipeFaults { max_frag: cfg["client_frag"].as_u64().unwrap_or(64) as usize, max_delay_ms: cfg["delay_ms"].as_u64().unwrap_or(0), buf: cfg["client_buf"].as_u64().unwrap_or(65536) as usize, ..Default::default() };
    let (mut client_end, proxy_end) = chop_pipe(hash3(seed, 3, 3), &cfaults, cstats);
    let reply_pad = cfg["reply_pad"].as_u64().unwrap_or(0) as usize;
    let sess_task = tokio::spawn(handle_session(session, SimStream::from_io(proxy_end), None));

    // metadata first (same connection), then the pipeline
    let ids: Vec<u64> = plan["ops"].as_array().map(|a| a.iter().map(|x| x.as_u64().unwrap_or(0)).collect()).unwrap_or_default();
    let vsize = cfg["value_size"].as_u64().unwrap_or(3) as usize;
    let mut out = cmd_bytes(SETCLUSTER_ALL);
    let mut keys = vec![];
    for id in ids.iter() {
        let key = format!("k{}", id).into_bytes();
        if id % 2 == 0 {
            out.extend_from_slice(&cmd_bytes(&[b"GET", &key]));
        } else {
            let val = vec![b'v'; vsize];
            out.extend_from_slice(&cmd_bytes(&[b"SET", &key, &val]));
        }
        keys.push(key);
    }
    let n_expected = keys.len() + 1;
    // the client writes its pipeline and reads replies concurrently (a client that only starts to
    // read after its last write can deadlock against any server once buffers are small)
    let (mut client_rd, mut client_wr) = tokio::io::split(client_end);
    let out_len = out.len();
    let writer_task = tokio::spawn(async move {
        let _ = client_wr.write_all(&out).await;
        // keep the write half open until the run ends
        futures::future::pending::<()>().await;
    });
    // read replies until we have them all, or the bound expires once faults stopped
    let mut inbuf: Vec<u8> = vec![];
    let mut replies: Vec<R> = vec![];
    let mut tmp = vec![0u8; 8192];
    // liveness bound: 60 virtual seconds after the last fault, plus the time the configured
    // fragmentation/delay needs to move the bytes at all
    let slow_ms = {
        let d = cfg["delay_ms"].as_u64().unwrap_or(0) + 1;
        // a hop moves at most min(fragment, pipe buffer) bytes per step
        let bf = cfg["backend_frag"].as_u64().unwrap_or(512).min(cfg["buf"].as_u64().unwrap_or(1024)).max(1);
        let cf = cfg["client_frag"].as_u64().unwrap_or(64).min(cfg["client_buf"].as_u64().unwrap_or(65536)).max(1);
        let bytes = out_len as u64 + (32 + reply_pad as u64) * n_expected as u64;
        (bytes / bf + bytes / cf + 2) * d * 3
    };
    let stall_ms: u64 = plan["conns"].as_array().map(|a| a.iter().map(|c| c.get("stall_ab").or(c.get("stall_ba")).and_then(|x| x.as_array()).and_then(|x| x.get(1)).and_then(|x| x.as_u64()).filter(|ms| *ms < 600_000).unwrap_or(0)).sum()).unwrap_or(0);
    let bound = Duration::from_millis(60_000 + slow_ms + stall_ms);
    let deadline = tokio::time::Instant::now() + bound;
    let mut closed = false;
    while replies.len() < n_expected {
        loop {
            match ref_parse(&inbuf, 0) {
                Ok(Some((r, used))) => {
                    inbuf.drain(..used);
                    replies.push(r);
                }
                Ok(None) => break,
                Err(e) => {
                    rec.violate(Violation::new("C08", "reply-stream-not-resp", format!("the bytes written to the client are not RESP ({}) near {:?}", e, String::from_utf8_lossy(&inbuf[..inbuf.len().min(60)]))));
                    inbuf.clear();
                    break;
                }
            }
        }
        if replies.len() >= n_expected || !rec.violations.is_empty() {
            break;
        }
        match tokio::time::timeout_at(deadline, client_rd.read(&mut tmp)).await {
            Err(_) => break,
            Ok(Ok(0)) | Ok(Err(_)) => {
                closed = true;
                break;
            }
            Ok(Ok(n)) => inbuf.extend_from_slice(&tmp[..n]),
        }
    }
    // a little longer: there must never be MORE replies than requests
    if let Ok(Ok(n)) = tokio::time::timeout(Duration::from_millis(5000 + slow_ms), client_rd.read(&mut tmp)).await {
        if n > 0 {
            inbuf.extend_from_slice(&tmp[..n]);
            // only meaningful when every request already has its reply (a late reply after the
            // bound is reported as missing, once)
            if replies.len() >= n_expected && matches!(ref_parse(&inbuf, 0), Ok(Some(_))) {
                rec.violate(Violation::new("C08", "more-replies-than-requests", format!("{} requests were sent but an additional reply arrived: {:?}", n_expected, String::from_utf8_lossy(&inbuf[..inbuf.len().min(80)]))));
            }
        }
    }
    sess_task.abort();
    writer_task.abort();
    // ---- oracle
    let mut classes = String::new();
    if replies.len() < n_expected {
        rec.violate(Violation::new("C08", "missing-replies", format!("{} complete requests were sent, only {} replies arrived within {} virtual seconds (connection closed by proxy: {}); attempts {} refused {} resets {} stalls {}", n_expected, replies.len(), bound.as_secs(), closed, bplan.attempts.load(Ordering::SeqCst), bplan.refused.load(Ordering::SeqCst), stats.resets.load(Ordering::SeqCst), stats.stalls.load(Ordering::SeqCst))));
    }
    if let Some(first) = replies.first() {
        if !matches!(first, R::Simple(_)) {
            rec.violate(Violation::new("C08", "setcluster-reply", format!("first reply {:?}", first)));
        }
    }
    for (i, r) in replies.iter().enumerate().skip(1) {
        let key = match keys.get(i - 1) {
            Some(k) => k,
            None => break,
        };
        match r {
            R::Error(_) => classes.push('e'),
            R::Bulk(Some(b)) => {
                let mut want = b"r:".to_vec();
                want.extend_from_slice(key);
                want.extend(std::iter::repeat(b'#').take(reply_pad));
                if b == &want {
                    classes.push('v');
                } else {
                    classes.push('X');
                    rec.violate(Violation::new("C08", "reply-of-another-request", format!("request #{} (key {}) received {:?}: a reply that belongs to another request (or none)", i - 1, String::from_utf8_lossy(key), String::from_utf8_lossy(b))));
                }
            }
            other => {
                classes.push('?');
                rec.violate(Violation::new("C08", "unexpected-reply-shape", format!("request #{} (key {}) received {:?}", i - 1, String::from_utf8_lossy(key), other)));
            }
        }
    }
    let resets = stats.resets.load(Ordering::SeqCst);
    let stalls = stats.stalls.load(Ordering::SeqCst);
    let refused = bplan.refused.load(Ordering::SeqCst);
    rec.faults.insert("backend_conn_reset".into(), resets);
    rec.faults.insert("backend_stall".into(), stalls);
    rec.faults.insert("backend_conn_refused".into(), refused);
    rec.faults.insert("read_write_fragmentation".into(), stats.frags.load(Ordering::SeqCst));
    if cfg["buf"].as_u64().unwrap_or(1024) <= 64 {
        rec.fault("backpressure_small_buffer");
    }
    rec.probe_n("error_replies", classes.matches('e').count() as u64);
    rec.probe_n("value_replies", classes.matches('v').count() as u64);
    rec.probe_n("backend_connection_attempts", bplan.attempts.load(Ordering::SeqCst));
    rec.probe_n("backend_executions", bplan.executed.lock().len() as u64);
    if bplan.executed.lock().len() > keys.len() {
        rec.probe("requests_retried_after_reconnect");
    }
    rec.nontrivial = resets + stalls + refused > 0 || keys.len() >= 20;
    let mut th = TraceHash::new();
    th.add(classes.as_bytes());
    th.add_u64(resets * 1000 + stalls * 100 + refused);
    rec.sched_hash = th.0;
    {
        let g = net.inner.lock();
        rec.trace_hash = g.trace.0 ^ th.0;
        rec.vtime_ms = tokio::time::Instant::now().duration_since(g.start).as_millis() as u64;
    }
    rec.state_hash = th.0;
    rec.steps = replies.len() as u64;
    if want_sample {
        rec.sample = Some(json!({"cfg": cfg, "conns": plan["conns"], "reply_classes": classes.chars().take(120).collect::<String>(), "executions": bplan.executed.lock().len()}));
    }
    rec
}

// ---------------------------------------------------------------------------
// C16 — hostile input

fn hostile_bytes(kind: u64, a: u64, b: u64) -> (String, Vec<u8>) {
    let big = [1u64 << 20, 1 << 31, 1 << 40, (1u64 << 63) - 1, 1_000_000_000_000][(a % 5) as usize];
    let junk: Vec<u8> = (0..(b % 24)).map(|i| (hash3(a, b, i) & 0xff) as u8).collect();
    let s = |x: &str| x.as_bytes().to_vec();
    match kind {
        0 => ("array-length-far-larger-than-data".into(), format!("*{}\r\n$4\r\nPING\r\n", big).into_bytes()),
        1 => ("bulk-length-far-larger-than-data".into(), format!("*2\r\n$4\r\nECHO\r\n${}\r\nabc\r\n", big).into_bytes()),
        2 => {
            let depth = [100u64, 2_000, 20_000, 100_000][(a % 4) as usize];
            let mut v = vec![];
            for _ in 0..depth {
                v.extend_from_slice(b"*1\r\n");
            }
            v.extend_from_slice(b"$4\r\nPING\r\n");
            (format!("nesting-depth-{}", depth), v)
        }
        3 => ("truncated-packet".into(), s("*3\r\n$3\r\nSET\r\n$1\r\nk\r\n$10\r\nabc")),
        4 => ("garbage".into(), junk.clone()),
        5 => ("eval-huge-numkeys".into(), cmd_bytes(&[b"EVAL", b"return 1", big.to_string().as_bytes(), b"k"])),
        6 => ("eval-numkeys-max".into(), cmd_bytes(&[b"EVAL", b"return 1", b"18446744073709551615", b"k"])),
        7 => ("eval-negative-numkeys".into(), cmd_bytes(&[b"EVAL", b"return 1", b"-1", b"k"])),
        8 => ("umforward-huge-times".into(), cmd_bytes(&[b"UMFORWARD", big.to_string().as_bytes(), b"GET", b"k"])),
        9 => ("umforward-junk".into(), cmd_bytes(&[b"UMFORWARD", &junk, b"GET"])),
        10 => ("umctl-setcluster-junk".into(), cmd_bytes(&[b"UMCTL", b"SETCLUSTER", b"v2", &junk, b"NOFLAG", b"c0", b"10.0.0.1:6000", big.to_string().as_bytes(), b"0-16383"])),
        11 => match b % 6 {
            3 => ("umctl-setcluster-huge-range-count".into(), cmd_bytes(&[b"UMCTL", b"SETCLUSTER", b"v2", b"1000011", b"FORCE", b"c0", b"10.0.0.1:6000", big.to_string().as_bytes(), b"0-16383"])),
            4 => ("umctl-setcluster-huge-range-count".into(), cmd_bytes(&[b"UMCTL", b"SETCLUSTER", b"v2", b"1000012", b"FORCE", b"c0", b"10.0.0.1:6000", b"1", b"0-8000", b"PEER", b"10.0.9.1:7000", big.to_string().as_bytes(), b"8001-16383"])),
            5 => ("umctl-setcluster-huge-range-count".into(), cmd_bytes(&[b"UMCTL", b"SETCLUSTER", b"v2", b"1000013", b"FORCE", b"c0", b"10.0.0.1:6000", b"IMPORTING", big.to_string().as_bytes(), b"0-100", b"7", b"10.0.9.1:7000", b"10.0.9.1:6000", b"10.0.0.1:7000", b"10.0.0.1:6000"])),
            0 => ("umctl-setcluster-huge-range".into(), cmd_bytes(&[b"UMCTL", b"SETCLUSTER", b"v2", b"9", b"NOFLAG", b"c0", b"10.0.0.1:6000", b"1", format!("0-{}", big).as_bytes()])),
            t => ("umctl-setcluster-huge-range-with-migration-tag".into(), cmd_bytes(&[b"UMCTL", b"SETCLUSTER", b"v2", b"1000009", b"FORCE", b"c0", b"10.0.0.1:6000", if t == 1 { b"MIGRATING".as_ref() } else { b"IMPORTING".as_ref() }, b"1", format!("0-{}", big).as_bytes(), b"7", b"10.0.0.1:7000", b"10.0.0.1:6000", b"10.0.9.1:7000", b"10.0.9.1:6000"])),
        },
        12 => ("umctl-setrepl-junk".into(), cmd_bytes(&[b"UMCTL", b"SETREPL", b"5", b"NOFLAG", b"master", b"c0", b"10.0.0.1:6000", big.to_string().as_bytes()])),
        13 => ("umctl-precheck-junk".into(), cmd_bytes(&[b"UMCTL", b"PRECHECK", &junk, b"c0", b"MIGRATING", b"1", b"0-100"])),
        14 => ("config-set-junk".into(), cmd_bytes(&[b"CONFIG", b"SET", &junk, big.to_string().as_bytes()])),
        15 => ("cluster-keyslot-binary".into(), cmd_bytes(&[b"CLUSTER", b"KEYSLOT", &junk])),
        16 => ("auth-junk".into(), cmd_bytes(&[b"AUTH", &junk])),
        17 => ("blpop-timeout-1".into(), cmd_bytes(&[b"BLPOP", b"k1", b"k2", b"1"])),
        18 => ("blocking-pop-without-key".into(), cmd_bytes(&[[b"BLPOP".as_ref(), b"BRPOP", b"BZPOPMAX", b"BZPOPMIN", b"BRPOPLPUSH"][(a % 5) as usize], [b"1".as_ref(), b"1", b"5"][(b % 3) as usize]])),
        19 => ("mset-odd-arity".into(), cmd_bytes(&[b"MSET", b"k1", b"v1", b"k2"])),
        20 => ("command-with-no-args".into(), cmd_bytes(&[[b"GET".as_ref(), b"MGET", b"DEL", b"EVAL", b"UMCTL", b"CLUSTER", b"UMFORWARD", b"UMSYNC", b"MSETNX", b"EXISTS"][(a % 10) as usize]])),
        21 => ("non-utf8-command-name".into(), cmd_bytes(&[&[0xff, 0xfe, 0x00], b"k"])),
        22 => ("empty-array".into(), s("*0\r\n")),
        23 => ("nil-array-and-nil-bulk".into(), s("*-1\r\n$-1\r\n*1\r\n$-1\r\n")),
        24 => ("inline-text".into(), s("PING\r\nGET k\r\n")),
        25 => ("umsync-junk".into(), cmd_bytes(&[b"UMSYNC", &junk, b"k"])),
        26 => ("array-of-non-bulk".into(), s("*2\r\n:1\r\n+x\r\n")),
        27 => ("huge-negative-lengths".into(), s("*-9223372036854775808\r\n$-9223372036854775808\r\n")),
        28 | 29 => {
            // well-formed RESP arrays whose arguments are not bulk strings (no client library sends
            // them, nothing forbids them on the wire)
            let names: [&[u8]; 26] = [b"GET", b"SET", b"DEL", b"EXISTS", b"MGET", b"MSET", b"MSETNX", b"BLPOP", b"BRPOP", b"BZPOPMIN", b"BZPOPMAX", b"BRPOPLPUSH", b"EVAL", b"UMCTL", b"CLUSTER", b"CONFIG", b"AUTH", b"UMFORWARD", b"UMSYNC", b"SETEX", b"PSETEX", b"GETSET", b"APPEND", b"INFO", b"SETNX", b"EVALSHA"];
            let name = if kind == 29 { names[7 + (a % 4) as usize] } else { names[(a % 26) as usize] };
            let odd: [&[u8]; 6] = [b"$-1\r\n", b":1\r\n", b"+x\r\n", b"*1\r\n$1\r\nk\r\n", b"-e\r\n", b"*0\r\n"];
            let n_args = if kind == 29 { 2 } else { 1 + (b % 3) as usize };
            let mut v = format!("*{}\r\n${}\r\n", 1 + n_args, name.len()).into_bytes();
            v.extend_from_slice(name);
            v.extend_from_slice(b"\r\n");
            for i in 0..n_args {
                let h = hash3(a, b, i as u64);
                let last_is_timeout = kind == 29 && i == n_args - 1;
                if last_is_timeout || h % 4 == 3 {
                    v.extend_from_slice(if last_is_timeout || h % 8 == 3 { b"$1\r\n1\r\n" } else { b"$1\r\nk\r\n" });
                } else {
                    v.extend_from_slice(odd[(h >> 8) as usize % odd.len()]);
                }
            }
            (if kind == 29 { "blocking-pop-non-bulk-key".to_string() } else { "non-bulk-arguments".to_string() }, v)
        }
        31 => {
            // every request is recorded in the slow log (both knobs are runtime-settable by any
            // client), then arguments whose rendering has to be shortened
            let pad = 96 + (a % 6) as usize;
            let wide = ["\u{4e2d}", "\u{e9}", "\u{1f600}"][(b % 3) as usize];
            let mut key = vec![b'a'; pad];
            key.extend(wide.repeat(3).as_bytes());
            let mut v = cmd_bytes(&[b"CONFIG", b"SET", b"slowlog_sample_rate", b"1"]);
            v.extend(cmd_bytes(&[b"CONFIG", b"SET", b"slowlog_log_slower_than", b"-1"]));
            v.extend(cmd_bytes(&[b"GET", &key]));
            v.extend(cmd_bytes(&[b"SET", b"k", &key]));
            v.extend(cmd_bytes(&[b"UMCTL", b"SLOWLOG", b"GET"]));
            ("slowlog-of-long-multibyte-arguments".into(), v)
        }
        _ => {
            // valid control messages with unusual cluster names, followed by the commands that render them
            let names: [Vec<u8>; 8] = [
                vec![b'a'; 31],
                vec![b'b'; 25],
                { let mut n = b"a".to_vec(); n.extend("\u{4e2d}".repeat(8).as_bytes()); n },      // 25 bytes, char across byte 24
                { let mut n = b"ab".to_vec(); n.extend("\u{e9}".repeat(12).as_bytes()); n },       // 26 bytes of 2-byte chars
                "\u{1f600}".repeat(6).into_bytes(),                                               // 24 bytes of 4-byte chars
                { let mut n = vec![b'c'; 23]; n.extend("\u{4e2d}".as_bytes()); n },               // char starts at byte 23
                b"c-0_@ x".to_vec(),
                vec![],
            ];
            let name = &names[(a % 8) as usize];
            let epoch = (1_000_000 + b % 1000).to_string();
            let mut v = cmd_bytes(&[b"UMCTL", b"SETCLUSTER", b"v2", epoch.as_bytes(), b"FORCE", name, b"10.0.0.1:6000", b"1", b"0-16383"]);
            v.extend(cmd_bytes(&[b"CLUSTER", b"NODES"]));
            v.extend(cmd_bytes(&[b"CLUSTER", b"SLOTS"]));
            v.extend(cmd_bytes(&[b"UMCTL", b"INFO"]));
            ("setcluster-unusual-name-then-cluster-nodes".into(), v)
        }
    }
}

async fn run_hostile(plan: &Value, want_sample: bool) -> RunRecord {
    let mut rec = RunRecord::default();
    let seed = plan["seed"].as_u64().unwrap_or(0);
    let net = Net::new(seed, 2);
    let stats = Arc::new(PipeStats { ab: AtomicU64::new(0), ba: AtomicU64::new(0), resets: AtomicU64::new(0), stalls: AtomicU64::new(0), frags: AtomicU64::new(0) });
    let default = PipeFaults { max_frag: 4096, buf: 65536, ..Default::default() };
    let bplan = Arc::new(BackendPlan { seed, conns: Mutex::new(vec![]), default, attempts: AtomicU64::new(0), refused: AtomicU64::new(0), executed: Mutex::new(vec![]), stats: stats.clone(), reply_pad: 0, tail: 0 });
    let pp = ProxyParams { active_redirection: plan["active_redirection"].as_bool().unwrap_or(false), ..Default::default() };
    let session = spawn_byte_proxy(&net, &pp, bplan);
    let frag = plan["frag"].as_u64().unwrap_or(64) as usize;
    let mk = |n: u64| {
        let f = PipeFaults { max_frag: frag, buf: 65536, ..Default::default() };
        chop_pipe(hash3(seed, 9, n), &f, stats.clone())
    };
    // connection A (hostile) and connection B (bystander)
    let (mut a_client, a_proxy) = mk(1);
    let (mut b_client, b_proxy) = mk(2);
    let task_a = tokio::spawn(handle_session(session.clone(), SimStream::from_io(a_proxy), None));
    let task_b = tokio::spawn(handle_session(session.clone(), SimStream::from_io(b_proxy), None));
    let mut tmp = vec![0u8; 65536];
    if plan["meta_first"].as_bool().unwrap_or(true) {
        let _ = b_client.write_all(&cmd_bytes(SETCLUSTER_ALL)).await;
        let _ = tokio::time::timeout(Duration::from_secs(5), b_client.read(&mut tmp)).await;
    }
    let mut kinds = vec![];
    let mut a_closed = false;
    let mut total_in = 0usize;
    let _ = (&mut a_client, &task_a);
    for (oi, o) in plan["ops"].as_array().cloned().unwrap_or_default().into_iter().enumerate() {
        let (name, bytes) = hostile_bytes(o["kind"].as_u64().unwrap_or(0), o["a"].as_u64().unwrap_or(0), o["b"].as_u64().unwrap_or(0));
        kinds.push(name.clone());
        total_in += bytes.len();
        // every hostile input gets its own connection: an incomplete packet must not swallow the next input
        let (mut c, p) = mk(10 + oi as u64);
        let t = tokio::spawn(handle_session(session.clone(), SimStream::from_io(p), None));
        if c.write_all(&bytes).await.is_err() {
            a_closed = true;
            t.abort();
            continue;
        }
        // every complete request must be answered, or the connection closed, within the (virtual) bound
        let mut n_requests = 0usize;
        let mut all_complete = true;
        {
            let mut off = 0usize;
            while off < bytes.len() {
                match ref_parse(&bytes[off..], 0) {
                    Ok(Some((R::Arr(Some(ref v)), used))) if !v.is_empty() => {
                        n_requests += 1;
                        off += used;
                    }
                    _ => {
                        all_complete = false;
                        break;
                    }
                }
            }
        }
        let want_replies = if all_complete { n_requests.max(1) } else { 1 };
        let mut got: Vec<u8> = vec![];
        let mut n_replies = 0usize;
        let deadline = tokio::time::Instant::now() + Duration::from_secs(10);
        let mut timed_out = false;
        while n_replies < want_replies {
            match tokio::time::timeout_at(deadline, c.read(&mut tmp)).await {
                Ok(Ok(0)) | Ok(Err(_)) => {
                    a_closed = true;
                    break;
                }
                Ok(Ok(n)) => {
                    got.extend_from_slice(&tmp[..n]);
                    loop {
                        match ref_parse(&got, 0) {
                            Ok(Some((_, used))) => {
                                got.drain(..used);
                                n_replies += 1;
                            }
                            Ok(None) => break,
                            Err(_) => {
                                // not RESP: C08/C15's business, stop counting here
                                n_replies = want_replies;
                                break;
                            }
                        }
                    }
                }
                Err(_) => {
                    timed_out = true;
                    break;
                }
            }
        }
        if timed_out && all_complete && n_requests > 0 {
            rec.violate(Violation::with_sig("C16", "request-never-answered", format!("request-never-answered:{}", name), format!("hostile input `{}` ({} bytes: {:?}) consists of {} complete request(s) but only {} were answered and the connection was not closed within 10 virtual seconds", name, bytes.len(), String::from_utf8_lossy(&bytes[..bytes.len().min(80)]), n_requests, n_replies)));
        }
        t.abort();
        if let Err(e) = t.await {
            if e.is_panic() {
                rec.violate(Violation::with_sig("C16", "panic", format!("panic-in-session-task:{}", name), format!("the session task panicked on `{}`", name)));
            }
        }
    }
    // connection B keeps being served
    let ping = b_client.write_all(&cmd_bytes(&[b"PING"])).await;
    let pong = tokio::time::timeout(Duration::from_secs(10), b_client.read(&mut tmp)).await;
    let served = ping.is_ok() && matches!(pong, Ok(Ok(n)) if n > 0);
    if !served {
        rec.violate(Violation::with_sig("C16", "other-connection-not-served", format!("other-connection-not-served:{}", kinds.join("+")), format!("after hostile inputs {:?} on connection A, connection B's PING was not answered", kinds)));
    }
    // panics inside tasks are caught by the runtime: look at the recorder and at the session tasks
    let panics = crate::sandbox::take_panics();
    if !panics.is_empty() {
        let loc = panics[0].split(" @ ").nth(1).unwrap_or("").to_string();
        rec.violate(Violation::with_sig("C16", "panic", format!("panic@{}", loc), format!("hostile inputs {:?} made the proxy panic: {}", kinds, panics.join(" | "))));
    }
    task_a.abort();
    task_b.abort();
    if let Err(e) = task_a.await {
        if e.is_panic() {
            rec.violate(Violation::with_sig("C16", "panic", "panic@session-task".into(), format!("the session task panicked on {:?}", kinds)));
        }
    }
    let peak = crate::alloc::peak_bytes();
    rec.probe_n("peak_allocated_kib", peak / 1024);
    let allowed = (64u64 << 20) + 64 * total_in as u64;
    if peak > allowed {
        rec.violate(Violation::with_sig("C16", "memory-not-bounded-by-input", format!("memory-not-bounded-by-input:{}", kinds.join("+")), format!("peak allocation {} bytes for {} bytes of input ({:?})", peak, total_in, kinds)));
    }
    rec.nontrivial = served;
    for k in kinds.iter() {
        rec.probe(&format!("input:{}", k.split('-').take(3).collect::<Vec<_>>().join("-")));
    }
    let mut th = TraceHash::new();
    th.add(kinds.join(",").as_bytes());
    rec.trace_hash = th.0;
    rec.sched_hash = th.0;
    rec.state_hash = th.0;
    rec.steps = kinds.len() as u64;
    rec.vtime_ms = net.now_ms();
    rec.fault("read_write_fragmentation");
    if want_sample {
        rec.sample = Some(json!({"inputs": kinds, "a_closed": a_closed, "b_served": served, "peak_bytes": peak}));
    }
    rec
}
