//! Sequential reference models (string register, counter, list) and a small
//! WGL-style linearizability search over per-key histories.
//!
//! An operation is (invoke_seq, return_seq, op, observed reply). Sequence
//! numbers are the simulator's global event numbers (not virtual time).
//! Indeterminate operations (the client saw a connection/backend error) may
//! take effect at any point after their invocation, or never.

use std::collections::{BTreeSet, HashSet, VecDeque};

#[derive(Clone, Debug, PartialEq, Eq, Hash)]
pub enum KState {
    Absent,
    Str(Vec<u8>),
    List(VecDeque<Vec<u8>>),
}

#[derive(Clone, Debug, PartialEq, Eq)]
pub enum Op {
    Get,
    Set(Vec<u8>),
    SetNx(Vec<u8>),
    GetSet(Vec<u8>),
    Append(Vec<u8>),
    Incr,
    Exists,
    Del,
    Strlen,
    LPush(Vec<u8>),
    RPush(Vec<u8>),
    LPop,
    RPop,
    LLen,
}

impl Op {
    pub fn is_write(&self) -> bool {
        !matches!(self, Op::Get | Op::Exists | Op::Strlen | Op::LLen)
    }
    pub fn is_delete_family(&self) -> bool {
        matches!(self, Op::Del | Op::LPop | Op::RPop)
    }
}

/// Observed reply, normalised.
#[derive(Clone, Debug, PartialEq, Eq)]
pub enum Obs {
    Ok,
    Nil,
    Int(i64),
    Bulk(Vec<u8>),
    /// type error or similar deterministic error from the data node
    Err(String),
    /// outcome unknown (connection error, backend error): may or may not have executed
    Unknown,
}

pub fn apply(st: &KState, op: &Op) -> (Obs, KState) {
    match (op, st) {
        (Op::Get, KState::Absent) => (Obs::Nil, st.clone()),
        (Op::Get, KState::Str(v)) => (Obs::Bulk(v.clone()), st.clone()),
        (Op::Get, KState::List(_)) => (Obs::Err("WRONGTYPE".into()), st.clone()),
        (Op::Set(v), _) => (Obs::Ok, KState::Str(v.clone())),
        (Op::SetNx(v), KState::Absent) => (Obs::Int(1), KState::Str(v.clone())),
        (Op::SetNx(_), _) => (Obs::Int(0), st.clone()),
        (Op::GetSet(v), KState::Absent) => (Obs::Nil, KState::Str(v.clone())),
        (Op::GetSet(v), KState::Str(o)) => (Obs::Bulk(o.clone()), KState::Str(v.clone())),
        (Op::GetSet(_), KState::List(_)) => (Obs::Err("WRONGTYPE".into()), st.clone()),
        (Op::Append(s), KState::Absent) => (Obs::Int(s.len() as i64), KState::Str(s.clone())),
        (Op::Append(s), KState::Str(o)) => {
            let mut n = o.clone();
            n.extend_from_slice(s);
            (Obs::Int(n.len() as i64), KState::Str(n))
        }
        (Op::Append(_), KState::List(_)) => (Obs::Err("WRONGTYPE".into()), st.clone()),
        (Op::Incr, KState::Absent) => (Obs::Int(1), KState::Str(b"1".to_vec())),
        (Op::Incr, KState::Str(o)) => match std::str::from_utf8(o).ok().and_then(|s| s.parse::<i64>().ok()) {
            Some(n) => (Obs::Int(n + 1), KState::Str((n + 1).to_string().into_bytes())),
            None => (Obs::Err("ERR value is not an integer".into()), st.clone()),
        },
        (Op::Incr, KState::List(_)) => (Obs::Err("WRONGTYPE".into()), st.clone()),
        (Op::Exists, KState::Absent) => (Obs::Int(0), st.clone()),
        (Op::Exists, _) => (Obs::Int(1), st.clone()),
        (Op::Del, KState::Absent) => (Obs::Int(0), st.clone()),
        (Op::Del, _) => (Obs::Int(1), KState::Absent),
        (Op::Strlen, KState::Absent) => (Obs::Int(0), st.clone()),
        (Op::Strlen, KState::Str(o)) => (Obs::Int(o.len() as i64), st.clone()),
        (Op::Strlen, KState::List(_)) => (Obs::Err("WRONGTYPE".into()), st.clone()),
        (Op::LPush(v), KState::Absent) => {
            let mut l = VecDeque::new();
            l.push_front(v.clone());
            (Obs::Int(1), KState::List(l))
        }
        (Op::LPush(v), KState::List(l)) => {
            let mut l = l.clone();
            l.push_front(v.clone());
            (Obs::Int(l.len() as i64), KState::List(l))
        }
        (Op::RPush(v), KState::Absent) => {
            let mut l = VecDeque::new();
            l.push_back(v.clone());
            (Obs::Int(1), KState::List(l))
        }
        (Op::RPush(v), KState::List(l)) => {
            let mut l = l.clone();
            l.push_back(v.clone());
            (Obs::Int(l.len() as i64), KState::List(l))
        }
        (Op::LPush(_), KState::Str(_)) | (Op::RPush(_), KState::Str(_)) => (Obs::Err("WRONGTYPE".into()), st.clone()),
        (Op::LPop, KState::Absent) | (Op::RPop, KState::Absent) => (Obs::Nil, st.clone()),
        (Op::LPop, KState::List(l)) => {
            let mut l = l.clone();
            let v = l.pop_front();
            let ns = if l.is_empty() { KState::Absent } else { KState::List(l) };
            (v.map(Obs::Bulk).unwrap_or(Obs::Nil), ns)
        }
        (Op::RPop, KState::List(l)) => {
            let mut l = l.clone();
            let v = l.pop_back();
            let ns = if l.is_empty() { KState::Absent } else { KState::List(l) };
            (v.map(Obs::Bulk).unwrap_or(Obs::Nil), ns)
        }
        (Op::LPop, KState::Str(_)) | (Op::RPop, KState::Str(_)) => (Obs::Err("WRONGTYPE".into()), st.clone()),
        (Op::LLen, KState::Absent) => (Obs::Int(0), st.clone()),
        (Op::LLen, KState::List(l)) => (Obs::Int(l.len() as i64), st.clone()),
        (Op::LLen, KState::Str(_)) => (Obs::Err("WRONGTYPE".into()), st.clone()),
    }
}

fn obs_matches(expected: &Obs, observed: &Obs) -> bool {
    match (expected, observed) {
        (_, Obs::Unknown) => true,
        (Obs::Err(_), Obs::Err(_)) => true,
        (a, b) => a == b,
    }
}

#[derive(Clone, Debug)]
pub struct HOp {
    pub id: usize,
    pub inv: u64,
    /// u64::MAX when the outcome is unknown (no definite return)
    pub ret: u64,
    pub op: Op,
    pub obs: Obs,
    pub client: usize,
}

pub struct LinResult {
    pub ok: bool,
    /// possible final states over all valid linearizations (empty if !ok)
    pub finals: Vec<KState>,
    pub explored: u64,
    pub gave_up: bool,
}

/// Exhaustive search with memoisation on (linearised set, state). `ops.len()` must be <= 63.
pub fn check(initial: &KState, ops: &[HOp], budget: u64) -> LinResult {
    let n = ops.len();
    if n > 63 {
        return LinResult { ok: true, finals: vec![], explored: 0, gave_up: true };
    }
    // Unknown-outcome ops are optional: they may never take effect.
    let required: u64 = ops.iter().enumerate().filter(|(_, o)| o.obs != Obs::Unknown).fold(0u64, |m, (i, _)| m | (1 << i));
    let mut seen: HashSet<(u64, KState)> = HashSet::new();
    let mut finals: BTreeSet<String> = BTreeSet::new();
    let mut finals_v: Vec<KState> = vec![];
    let mut stack: Vec<(u64, KState)> = vec![(0, initial.clone())];
    let mut explored = 0u64;
    let mut gave_up = false;
    while let Some((done, st)) = stack.pop() {
        explored += 1;
        if explored > budget {
            gave_up = true;
            break;
        }
        if done & required == required {
            // all definite ops linearised; remaining unknown ops may simply never have happened
            let key = format!("{:?}", st);
            if finals.insert(key) {
                finals_v.push(st.clone());
            }
        }
        // the earliest return among not-yet-linearised *definite* ops bounds which ops may go next
        let mut min_ret = u64::MAX;
        for (i, o) in ops.iter().enumerate() {
            if done & (1 << i) == 0 && o.obs != Obs::Unknown && o.ret < min_ret {
                min_ret = o.ret;
            }
        }
        for (i, o) in ops.iter().enumerate() {
            if done & (1 << i) != 0 {
                continue;
            }
            if o.inv > min_ret {
                continue;
            }
            let (exp, ns) = apply(&st, &o.op);
            if !obs_matches(&exp, &o.obs) {
                continue;
            }
            let nd = done | (1 << i);
            if seen.insert((nd, ns.clone())) {
                stack.push((nd, ns));
            }
        }
    }
    let ok = gave_up || !finals_v.is_empty();
    LinResult { ok, finals: finals_v, explored, gave_up }
}
