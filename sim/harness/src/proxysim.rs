//! E2 "single proxy / small cluster" modes on real proxies with hand-built metadata:
//!   C05 (sequential part): install-iff-strictly-newer model for SETCLUSTER / SETREPL
//!   C09: key -> slot routing exactness on arbitrary layouts
//!   C20: value compression transparency
//! Metadata messages are built by an encoder of the harness (independent of /repo's).

use crate::broker::node_addrs;
use crate::cluster::{bulk_cmd, parse_moved, resp_to_strings, run_sim, spawn_proxy, spawn_redis_nodes, Client, ProxyParams};
use crate::framework::{Check, Meta, RunRecord, Tier, Violation};
use crate::rng::Rng;
use crate::sandbox::ChildLimits;
use crate::simnet::Net;
use crate::simredis::Val;
use crate::slots::slot_of;
use serde_json::{json, Value};
use std::collections::{BTreeMap, BTreeSet};
use std::time::Duration;
use undermoon::protocol::{Array, BulkStr, Resp, RespVec};

// ---------------------------------------------------------------------------
// harness-side metadata and its plain wire encoding

#[derive(Clone, Debug, PartialEq)]
pub struct SimMeta {
    pub epoch: u64,
    pub force: bool,
    pub cluster: String,
    /// (node address, ranges)
    pub local: Vec<(String, Vec<(usize, usize)>)>,
    /// (peer proxy address, ranges)
    pub peers: Vec<(String, Vec<(usize, usize)>)>,
    pub config: Vec<(String, String)>,
}

fn ranges_tokens(r: &[(usize, usize)]) -> Vec<String> {
    let mut v = vec![r.len().to_string()];
    for (s, e) in r {
        v.push(format!("{}-{}", s, e));
    }
    v
}

pub fn encode_setcluster(m: &SimMeta) -> Vec<Vec<u8>> {
    let mut t: Vec<String> = vec!["UMCTL".into(), "SETCLUSTER".into(), "v2".into(), m.epoch.to_string(), if m.force { "FORCE".into() } else { "NOFLAG".into() }, m.cluster.clone()];
    for (n, r) in m.local.iter() {
        if r.is_empty() {
            continue;
        }
        t.push(n.clone());
        t.extend(ranges_tokens(r));
    }
    if m.peers.iter().any(|(_, r)| !r.is_empty()) {
        t.push("PEER".into());
        for (p, r) in m.peers.iter() {
            if r.is_empty() {
                continue;
            }
            t.push(p.clone());
            t.extend(ranges_tokens(r));
        }
    }
    if !m.config.is_empty() {
        t.push("CONFIG".into());
        for (k, v) in m.config.iter() {
            t.push(k.clone());
            t.push(v.clone());
        }
    }
    t.into_iter().map(String::into_bytes).collect()
}

/// arbitrary valid layout over `owners` (index into owners, or None = gap)
pub fn gen_layout(rng: &mut Rng, n_owners: usize, gaps: bool) -> Vec<(usize, usize, Option<usize>)> {
    let mut cuts: BTreeSet<usize> = BTreeSet::new();
    let n_cuts = rng.range(1, 12);
    for _ in 0..n_cuts {
        let c = rng.below(16384) as usize;
        cuts.insert(c);
        if rng.chance(1, 3) && c + 1 < 16384 {
            cuts.insert(c + 1); // single-slot range
        }
    }
    cuts.insert(0);
    let cuts: Vec<usize> = cuts.into_iter().collect();
    let mut segs = vec![];
    for (i, s) in cuts.iter().enumerate() {
        let e = if i + 1 < cuts.len() { cuts[i + 1] - 1 } else { 16383 };
        let owner = if gaps && rng.chance(1, 8) { None } else { Some(rng.below(n_owners as u64) as usize) };
        segs.push((*s, e, owner));
    }
    segs
}

fn owner_of(layout: &[(usize, usize, Option<usize>)], slot: usize) -> Option<usize> {
    layout.iter().find(|(s, e, _)| *s <= slot && slot <= *e).and_then(|x| x.2)
}

const BRACE_KEYS: [&[u8]; 16] = [b"{}", b"{a}", b"}{", b"{{a}}", b"a{b}c", b"{a}{b}", b"a{}b{c}", b"{", b"}", b"a{", b"{}{}", b"\x00{\xff}\x00", b"{a", b"a}b{c", b"{\r\n}", b""];

fn gen_key(rng: &mut Rng) -> Vec<u8> {
    match rng.below(4) {
        0 => {
            let mut k = BRACE_KEYS[rng.below(BRACE_KEYS.len() as u64) as usize].to_vec();
            k.extend_from_slice(format!("{}", rng.below(1000)).as_bytes());
            k
        }
        1 => {
            let n = rng.range(1, 12) as usize;
            rng.bytes(n)
        }
        2 => format!("{{tag{}}}:{}", rng.below(50), rng.below(1000)).into_bytes(),
        _ => format!("key:{}", rng.below(100_000)).into_bytes(),
    }
}

pub struct ProxyCheck {
    pub prop: &'static str,
}

impl Check for ProxyCheck {
    fn id(&self) -> &'static str {
        self.prop
    }
    fn engine(&self) -> &'static str {
        "E2 cluster-sim (hand-built metadata)"
    }
    fn budget(&self, tier: Tier) -> (u64, Duration) {
        match (self.prop, tier) {
            ("C20", Tier::Quick) => (600, Duration::from_secs(40)),
            ("C20", Tier::Thorough) => (100_000, Duration::from_secs(900)),
            (_, Tier::Quick) => (1500, Duration::from_secs(40)),
            (_, Tier::Thorough) => (200_000, Duration::from_secs(900)),
        }
    }
    fn gen_plan(&self, seed: u64, _index: u64, _tier: Tier) -> Value {
        let mut rng = Rng::new(seed, "plan");
        match self.prop {
            "C05" => {
                let n = rng.range(30, 80);
                let mut ops = vec![];
                for i in 0..n {
                    // a replay of an earlier message (stale copy / duplicate), or a fresh one
                    if i > 2 && rng.chance(1, 5) {
                        ops.push(json!({"replay": rng.below(i)}));
                        continue;
                    }
                    ops.push(json!({
                        "kind": if rng.chance(3, 5) { "cluster" } else { "repl" },
                        "delta": *rng.pick(&[-3i64, -1, 0, 0, 1, 1, 1, 2, 5]),
                        "force": rng.chance(1, 8),
                        "foreign": rng.chance(1, 8),
                        "compress": rng.chance(1, 3),
                        "layout_seed": rng.next(),
                        "probes": rng.range(1, 4),
                    }));
                }
                json!({"engine": "cluster", "mode": "meta-install", "seed": seed, "ops": ops})
            }
            "C09" => {
                let n = rng.range(20, 60);
                let mut ops = vec![];
                for _ in 0..n {
                    let shape = *rng.pick(&["GET", "SET", "GET", "EXISTS1", "DEL1", "MGET", "MSET", "DEL", "EXISTS", "MSETNX", "EVAL", "BLPOP", "KEYSLOT", "KEYSLOT"]);
                    let nk = if matches!(shape, "MGET" | "MSET" | "DEL" | "EXISTS" | "MSETNX" | "EVAL" | "BLPOP") { rng.range(2, 4) } else { 1 };
                    let same_tag = rng.chance(1, 2);
                    let tag = rng.below(30);
                    let keys: Vec<String> = (0..nk)
                        .map(|j| {
                            let k = if same_tag { format!("{{g{}}}m{}", tag, j).into_bytes() } else { gen_key(&mut rng) };
                            hex(&k)
                        })
                        .collect();
                    // a third of the commands aim at the edges of the installed layout (first/last slot
                    // of a range, single-slot ranges, the slots next to a boundary)
                    let boundary: Value = if rng.chance(1, 3) { json!(rng.next()) } else { Value::Null };
                    ops.push(json!({"shape": shape, "keys": keys, "relayout": rng.chance(1, 12), "boundary": boundary}));
                }
                json!({"engine": "cluster", "mode": "routing-exact", "seed": seed, "active_redirection": rng.chance(1, 3), "max_redirections": rng.range(2, 4), "layout_seed": rng.next(), "gaps": rng.chance(1, 2), "ops": ops})
            }
            "C14" => {
                // hand-built layouts: 2-6 relayouts, each followed by an advertisement check
                let ops: Vec<Value> = (0..rng.range(2, 6)).map(|_| json!({"extra_slots": rng.range(8, 40), "pick": rng.next()})).collect();
                json!({"engine": "cluster", "mode": "advert-layout", "seed": seed, "nodes_v1": rng.chance(1, 2), "layout_seed": rng.next(), "gaps": rng.chance(1, 2), "ops": ops})
            }
            _ => {
                let n = rng.range(15, 50);
                let mut ops = vec![];
                for _ in 0..n {
                    let shape = *rng.pick(&["SET", "SET", "SETOPT", "SETEX", "PSETEX", "SETNX", "GETSET", "MSET", "MSETNX", "GET", "GET", "MGET", "GETSET", "RESTRICTED", "OTHER"]);
                    let size = *rng.pick(&[0usize, 1, 3, 10, 100, 1000, 5000, 70_000, 262_144]);
                    let vkind = *rng.pick(&["ascii", "binary", "zeros", "random", "ascii", "binary", "zeros", "random", "zframe", "zmagic"]);
                    ops.push(json!({"shape": shape, "k": rng.below(8), "k2": rng.below(8), "size": size, "vkind": vkind, "vseed": rng.next(), "via": rng.below(2), "opt": *rng.pick(&["EX", "PX", "NX", "XX", "KEEPTTL"])}));
                }
                json!({"engine": "cluster", "mode": "compression", "seed": seed, "strategy": *rng.pick(&["disabled", "set_get_only", "allow_all", "allow_all", "set_get_only"]), "active_redirection": rng.chance(1, 3), "max_redirections": rng.range(2, 4), "ops": ops})
            }
        }
    }
    fn execute(&self, plan: &Value, want_sample: bool) -> RunRecord {
        let plan = plan.clone();
        let prop = self.prop;
        run_sim(async move {
            match prop {
                "C05" => run_c05(&plan, want_sample).await,
                "C09" => run_c09(&plan, want_sample).await,
                "C14" => run_c14_layout(&plan, want_sample).await,
                _ => run_c20(&plan, want_sample).await,
            }
        })
    }
    fn limits(&self, _plan: Option<&Value>) -> ChildLimits {
        ChildLimits { wall_timeout: Duration::from_secs(120), rlimit_as: None, stack_bytes: 32 << 20 }
    }
    fn meta(&self) -> Meta {
        let rule: &'static str = match self.prop {
            "C05" => "plan = 30-80 SETCLUSTER/SETREPL messages to one real proxy with epochs drawn around the installed ones (lower/equal/higher), FORCE 1/8, foreign-host local nodes 1/8, plain or compressed encoding, arbitrary layouts, plus replays of earlier messages (stale copies, duplicates); after every message the reply, UMCTL GETEPOCH, UMCTL INFOREPL and the routing of fresh probe keys are compared with the (cluster_epoch, repl_epoch, accepted message) model. Non-trivial = >=1 rejected (OLD_EPOCH) and >=1 forced or foreign message occurred; distinct = distinct (message-kind/outcome sequence hash, end state).",
            "C09" => "plan = arbitrary layouts (1-24 cut points, single-slot ranges, gaps, several ranges per node, 2 local nodes + 2 peers) installed through SETCLUSTER; 20-60 commands (single-key, MGET/MSET/DEL/EXISTS/MSETNX/EVAL/BLPOP with same or different slots, CLUSTER KEYSLOT) on keys biased towards brace placements and binary content; active redirection on (peers are real proxies) or off. Oracle = independent CRC16-XMODEM/hash-tag reference + Redis model execution log. Non-trivial = >=1 local execution, >=1 MOVED and >=1 multi-key command judged.",
            "C14" => "plan = one real proxy (NODES format v1 or v2) given 2-6 successive hand-built layouts (1-24 cut points, single-slot ranges, gaps, several ranges per node, 2 local nodes + 2 peer proxies) through SETCLUSTER; after each one CLUSTER NODES and CLUSTER SLOTS are parsed with the harness's own parsers: every slot listed at most once, both commands agree, every slot of the layout is advertised at the proxy that owns it and gaps under nobody; then a GET for every range edge, its neighbours and 8-40 random slots checks that an advertised-at-self slot is executed locally, an advertised-elsewhere slot is answered MOVED to that node and an unadvertised one is neither. Non-trivial = >=1 single-slot range or gap judged.",
            _ => "plan = 2 real proxies owning half of the slots each, compression strategy {disabled,set_get_only,allow_all} installed through SETCLUSTER CONFIG, 15-50 write/read commands (SET with EX/PX/NX/XX/KEEPTTL after the value, SETEX, PSETEX, SETNX, GETSET, MSET, MSETNX, GET, MGET, restricted and unrelated commands) with values empty/1 B..256 KiB, ascii/binary/zeros/random, written through one proxy and read through the other (following MOVED). Non-trivial = >=1 compressed value stored and read back.",
        };
        Meta {
            level: "exploration",
            rule,
            real: vec!["proxy::* (Session, executor, manager, cluster, slot, compress, reply, backend senders)", "replication::manager", "common::proto / cluster parsers", "common::utils::generate_slot"],
            stubs: vec!["TCP (SimNet)", "Redis (SimRedis)", "coordinator (messages are built by the harness's own encoder; compressed ones by /repo's encoder)"],
            assumptions: vec!["sequential delivery (the concurrent part of C05 is not claimed here)"],
            fault_kinds: vec!["msg_duplicate_stale_replay"],
        }
    }
}

fn hex(b: &[u8]) -> String {
    b.iter().map(|x| format!("{:02x}", x)).collect()
}
fn unhex(s: &str) -> Vec<u8> {
    (0..s.len() / 2).filter_map(|i| u8::from_str_radix(&s[2 * i..2 * i + 2], 16).ok()).collect()
}

const P0: &str = "10.0.0.1:7000";
const P1: &str = "10.0.1.1:7000";
const P2: &str = "10.0.2.1:7000";

fn err_text(r: &RespVec) -> Option<String> {
    if let Resp::Error(e) = r {
        Some(String::from_utf8_lossy(e).to_string())
    } else {
        None
    }
}

fn meta_from_layout(epoch: u64, force: bool, layout: &[(usize, usize, Option<usize>)], locals: &[String], peers: &[String], config: Vec<(String, String)>) -> SimMeta {
    let mut l: Vec<(String, Vec<(usize, usize)>)> = locals.iter().map(|a| (a.clone(), vec![])).collect();
    let mut p: Vec<(String, Vec<(usize, usize)>)> = peers.iter().map(|a| (a.clone(), vec![])).collect();
    for (s, e, o) in layout.iter() {
        if let Some(o) = o {
            if *o < l.len() {
                l[*o].1.push((*s, *e));
            } else if *o - l.len() < p.len() {
                p[*o - locals.len()].1.push((*s, *e));
            }
        }
    }
    SimMeta { epoch, force, cluster: "c0".into(), local: l, peers: p, config }
}

/// where (if anywhere) commands mentioning `key` executed since the logs were last cleared
fn executed_on(net: &Net, hosts: &[usize], key: &[u8]) -> Vec<(String, String)> {
    let mut v = vec![];
    for h in hosts {
        for a in node_addrs(*h, 0).iter() {
            if let Some(r) = net.redis(a) {
                for e in r.lock().log.iter() {
                    if e.cmd.iter().skip(1).any(|x| x == key) {
                        v.push((a.clone(), String::from_utf8_lossy(&e.cmd[0]).to_uppercase()));
                    }
                }
            }
        }
    }
    v
}

fn clear_logs(net: &Net, hosts: &[usize]) {
    for h in hosts {
        for a in node_addrs(*h, 0).iter() {
            if let Some(r) = net.redis(a) {
                r.lock().log.clear();
            }
        }
    }
}

fn finish(net: &Net, rec: &mut RunRecord) {
    let g = net.inner.lock();
    rec.trace_hash = g.trace.0;
    rec.sched_hash = g.sched.0;
    rec.steps = g.seq;
    rec.vtime_ms = tokio::time::Instant::now().duration_since(g.start).as_millis() as u64;
}

// ---------------------------------------------------------------------------
// C05 — sequential install model

async fn run_c05(plan: &Value, want_sample: bool) -> RunRecord {
    let mut rec = RunRecord::default();
    let seed = plan["seed"].as_u64().unwrap_or(0);
    let net = Net::new(seed, 2);
    spawn_redis_nodes(&net, 0, 0, seed);
    let _p = spawn_proxy(&net, P0, &ProxyParams::default(), 1);
    let locals = node_addrs(0, 0).to_vec();
    let peers = vec![P1.to_string(), P2.to_string()];
    let mut cl = Client::new(&net, 1);
    let ops: Vec<Value> = plan["ops"].as_array().cloned().unwrap_or_default();
    // model
    let mut cluster_epoch = 0u64;
    let mut repl_epoch = 0u64;
    let mut cur_layout: Option<Vec<(usize, usize, Option<usize>)>> = None;
    let mut cur_repl: Option<Vec<(String, String)>> = None; // (role, node)
    let mut sent: Vec<(Vec<Vec<u8>>, Value)> = vec![];
    let mut outcome_hash = crate::rng::TraceHash::new();
    let (mut n_old, mut n_special) = (0u64, 0u64);
    for (i, o) in ops.iter().enumerate() {
        let (cmd, desc): (Vec<Vec<u8>>, Value) = if let Some(r) = o.get("replay").and_then(|x| x.as_u64()) {
            match sent.get(r as usize % sent.len().max(1)) {
                Some(x) => {
                    rec.fault("msg_duplicate_stale_replay");
                    x.clone()
                }
                None => continue,
            }
        } else {
            let kind = o["kind"].as_str().unwrap_or("cluster");
            let base = if kind == "cluster" { cluster_epoch } else { repl_epoch } as i64;
            let epoch = (base + o["delta"].as_i64().unwrap_or(1)).max(0) as u64;
            let force = o["force"].as_bool().unwrap_or(false);
            let foreign = o["foreign"].as_bool().unwrap_or(false);
            let mut lrng = Rng::new(o["layout_seed"].as_u64().unwrap_or(0), "layout");
            if kind == "cluster" {
                let layout = gen_layout(&mut lrng, 4, false);
                let my_locals: Vec<String> = if foreign { vec!["10.0.9.1:6000".to_string(), locals[1].clone()] } else { locals.clone() };
                let meta = meta_from_layout(epoch, force, &layout, &my_locals, &peers, vec![]);
                // the message is only "foreign" if the foreign node actually appears in it (nodes without ranges are not encoded)
                let foreign = foreign && meta.local.iter().any(|(n, r)| n.starts_with("10.0.9.1") && !r.is_empty());
                let mut cmd = encode_setcluster(&meta);
                if o["compress"].as_bool().unwrap_or(false) {
                    // compressed form through /repo's encoder (C17 checks the encodings themselves)
                    let toks: Vec<String> = cmd.iter().skip(2).map(|b| String::from_utf8_lossy(b).to_string()).collect();
                    let mut it = toks.into_iter().peekable();
                    if let Ok((pm, _)) = undermoon::common::proto::ProxyClusterMeta::parse(&mut it) {
                        let flags = undermoon::common::proto::ClusterMapFlags { force, compress: true };
                        let pm2 = undermoon::common::proto::ProxyClusterMeta::new(pm.get_epoch(), flags, pm.get_cluster_name().clone(), pm.get_local().clone(), pm.get_peer().clone(), pm.get_config().clone());
                        if let Ok(args) = pm2.to_compressed_args() {
                            cmd = vec![b"UMCTL".to_vec(), b"SETCLUSTER".to_vec()];
                            cmd.extend(args.into_iter().map(String::into_bytes));
                        }
                    }
                }
                (cmd, json!({"kind": "cluster", "epoch": epoch, "force": force, "foreign": foreign, "layout": layout.iter().map(|(s, e, o)| json!([s, e, o])).collect::<Vec<_>>() }))
            } else {
                // replication meta: node 0 master / node 1 replica or both masters, random
                let both_master = lrng.chance(1, 3);
                let n0 = if foreign { "10.0.9.1:6000".to_string() } else { locals[0].clone() };
                let mut t: Vec<String> = vec!["UMCTL".into(), "SETREPL".into(), epoch.to_string(), if force { "FORCE".into() } else { "NOFLAG".into() }];
                let mut roles = vec![];
                t.extend(["master".to_string(), "c0".into(), n0.clone(), "1".into(), "10.0.1.1:6001".into(), P1.into()]);
                roles.push(("master".to_string(), n0.clone()));
                if both_master {
                    t.extend(["master".to_string(), "c0".into(), locals[1].clone(), "0".into()]);
                    roles.push(("master".to_string(), locals[1].clone()));
                } else {
                    t.extend(["replica".to_string(), "c0".into(), locals[1].clone(), "1".into(), "10.0.1.1:6000".into(), P1.into()]);
                    roles.push(("replica".to_string(), locals[1].clone()));
                }
                (t.into_iter().map(String::into_bytes).collect(), json!({"kind": "repl", "epoch": epoch, "force": force, "foreign": foreign, "roles": roles}))
            }
        };
        if o.get("replay").is_none() {
            sent.push((cmd.clone(), desc.clone()));
        }
        let reply = cl.call_one(P0, &cmd).await;
        let kind = desc["kind"].as_str().unwrap_or("cluster").to_string();
        let epoch = desc["epoch"].as_u64().unwrap_or(0);
        let force = desc["force"].as_bool().unwrap_or(false);
        let foreign = desc["foreign"].as_bool().unwrap_or(false);
        let installed = if kind == "cluster" { cluster_epoch } else { repl_epoch };
        let reply = match reply {
            Ok(r) => r,
            Err(()) => {
                rec.violate(Violation::new("C05", "no-reply", format!("message #{} {} got no reply", i, desc)));
                break;
            }
        };
        let is_ok = matches!(&reply, Resp::Simple(_));
        let etext = err_text(&reply).unwrap_or_default();
        outcome_hash.add(format!("{}{}{}", kind, is_ok, etext).as_bytes());
        if foreign {
            n_special += 1;
            if is_ok {
                rec.violate(Violation::new("C05", "foreign-host-meta-accepted", format!("message #{} {} names a local node on another host but was answered OK", i, desc)));
            }
        } else if force || epoch > installed {
            if force {
                n_special += 1;
            }
            if !is_ok {
                rec.violate(Violation::new("C05", "newer-meta-rejected", format!("message #{} {} (installed {} epoch {}) must be applied but was answered {:?}", i, desc, kind, installed, resp_to_strings(&reply))));
            } else if kind == "cluster" {
                cluster_epoch = epoch;
                cur_layout = desc["layout"].as_array().map(|a| a.iter().map(|x| (x[0].as_u64().unwrap_or(0) as usize, x[1].as_u64().unwrap_or(0) as usize, x[2].as_u64().map(|v| v as usize))).collect());
            } else {
                repl_epoch = epoch;
                cur_repl = desc["roles"].as_array().map(|a| a.iter().map(|x| (x[0].as_str().unwrap_or("").to_string(), x[1].as_str().unwrap_or("").to_string())).collect());
            }
        } else {
            n_old += 1;
            if etext != "OLD_EPOCH" {
                rec.violate(Violation::new("C05", "old-meta-not-refused-with-old-epoch", format!("message #{} {} (installed {} epoch {}) must be answered OLD_EPOCH but got {:?}", i, desc, kind, installed, resp_to_strings(&reply))));
                if is_ok {
                    // keep the model in step with what the proxy did, so that later checks stay meaningful
                    if kind == "cluster" {
                        cluster_epoch = epoch;
                    } else {
                        repl_epoch = epoch;
                    }
                }
            }
        }
        // reported epoch
        match cl.call_one(P0, &bulk_cmd(&[b"UMCTL", b"GETEPOCH"])).await {
            Ok(r) => {
                let e: Option<u64> = resp_to_strings(&r).first().and_then(|s| s.parse().ok());
                if e != Some(cluster_epoch) {
                    rec.violate(Violation::new("C05", "reported-epoch-differs", format!("after message #{} {}: UMCTL GETEPOCH = {:?}, model = {}", i, desc, e, cluster_epoch)));
                }
            }
            Err(()) => {}
        }
        // routing must correspond to the accepted message carrying the reported epoch
        if let Some(layout) = cur_layout.as_ref() {
            for j in 0..o["probes"].as_u64().unwrap_or(2) {
                let key = format!("probe:{}:{}", i, j).into_bytes();
                let slot = slot_of(&key);
                clear_logs(&net, &[0]);
                let r = cl.call_one(P0, &bulk_cmd(&[b"GET", &key])).await;
                let ex = executed_on(&net, &[0], &key);
                match owner_of(layout, slot) {
                    Some(o) if o < 2 => {
                        let want = locals[o].clone();
                        if ex.len() != 1 || ex[0].0 != want {
                            rec.violate(Violation::new("C05", "routing-not-of-accepted-meta", format!("after message #{}: slot {} belongs to local node {} in the accepted metadata (epoch {}) but the probe executed on {:?} (reply {:?})", i, slot, want, cluster_epoch, ex, r.as_ref().map(resp_to_strings))));
                        }
                    }
                    Some(o) => {
                        let want = peers[o - 2].clone();
                        let moved = r.as_ref().ok().and_then(parse_moved);
                        if moved != Some((slot, want.clone())) || !ex.is_empty() {
                            rec.violate(Violation::new("C05", "routing-not-of-accepted-meta", format!("after message #{}: slot {} belongs to peer {} in the accepted metadata (epoch {}) but the probe got {:?} / executed {:?}", i, slot, want, cluster_epoch, r.as_ref().map(resp_to_strings), ex)));
                        }
                    }
                    None => {}
                }
            }
        }
        // replication roles
        if let Some(roles) = cur_repl.as_ref() {
            if let Ok(r) = cl.call_one(P0, &bulk_cmd(&[b"UMCTL", b"INFOREPL"])).await {
                let strs = resp_to_strings(&r);
                let mut got: Vec<(String, String)> = vec![];
                let mut role = String::new();
                for s in strs.iter() {
                    if let Some(x) = s.trim().strip_prefix("role:") {
                        role = x.to_string();
                    } else if let Some(x) = s.trim().strip_prefix("node_address:") {
                        got.push((role.clone(), x.to_string()));
                    }
                }
                let mut a = roles.clone();
                a.sort();
                got.sort();
                if a != got {
                    rec.violate(Violation::new("C05", "repl-roles-not-of-accepted-meta", format!("after message #{}: INFOREPL shows {:?} but the accepted replication metadata (epoch {}) says {:?}", i, got, repl_epoch, a)));
                }
            }
        }
    }
    rec.probe_n("old_epoch_expected", n_old);
    rec.probe_n("forced_or_foreign", n_special);
    rec.nontrivial = n_old > 0 && n_special > 0;
    finish(&net, &mut rec);
    rec.sched_hash = outcome_hash.0;
    rec.state_hash = crate::rng::mix64(cluster_epoch.wrapping_mul(1_000_003) ^ repl_epoch);
    if want_sample {
        rec.sample = Some(json!({"plan_head": crate::framework::truncate_value(plan, 2500), "final_cluster_epoch": cluster_epoch, "final_repl_epoch": repl_epoch}));
    }
    rec
}

// ---------------------------------------------------------------------------
// C09 — routing exactness

async fn install(cl: &mut Client, proxy: &str, meta: &SimMeta) -> bool {
    matches!(cl.call_one(proxy, &encode_setcluster(meta)).await, Ok(Resp::Simple(_)))
}

async fn run_c09(plan: &Value, want_sample: bool) -> RunRecord {
    let mut rec = RunRecord::default();
    let seed = plan["seed"].as_u64().unwrap_or(0);
    let redirect = plan["active_redirection"].as_bool().unwrap_or(false);
    let net = Net::new(seed, 2);
    let pp = ProxyParams { active_redirection: redirect, max_redirections: plan["max_redirections"].as_u64().unwrap_or(4) as usize, ..Default::default() };
    for h in 0..3 {
        spawn_redis_nodes(&net, h, 0, seed);
    }
    let _p0 = spawn_proxy(&net, P0, &pp, 1);
    // peers are real proxies only when commands are actively redirected to them
    let _peers = if redirect { vec![spawn_proxy(&net, P1, &pp, 1), spawn_proxy(&net, P2, &pp, 1)] } else { vec![] };
    let mut cl = Client::new(&net, 1);
    let mut lrng = Rng::new(plan["layout_seed"].as_u64().unwrap_or(0), "layout");
    let gaps = plan["gaps"].as_bool().unwrap_or(false);
    let mut epoch = 1u64;
    let mut layout = gen_layout(&mut lrng, 4, gaps);
    // owner index -> (proxy, node) : 0,1 local nodes of P0; 2 -> P1 node 0; 3 -> P2 node 0
    let owner_node = |o: usize| -> String {
        match o {
            0 => node_addrs(0, 0)[0].clone(),
            1 => node_addrs(0, 0)[1].clone(),
            2 => node_addrs(1, 0)[0].clone(),
            _ => node_addrs(2, 0)[0].clone(),
        }
    };
    let owner_proxy = |o: usize| -> &'static str {
        match o {
            0 | 1 => P0,
            2 => P1,
            _ => P2,
        }
    };
    async fn install_all(cl: &mut Client, layout: &[(usize, usize, Option<usize>)], epoch: u64, redirect: bool) -> bool {
        let l0 = node_addrs(0, 0).to_vec();
        let m0 = meta_from_layout(epoch, false, layout, &l0, &[P1.to_string(), P2.to_string()], vec![]);
        let mut ok = install(cl, P0, &m0).await;
        if redirect {
            // P1 sees owner 2 as its local node 0; everything else as peers
            for (pi, me) in [(2usize, P1), (3usize, P2)] {
                let mut local: Vec<(String, Vec<(usize, usize)>)> = vec![(node_addrs(pi - 1, 0)[0].clone(), vec![])];
                let mut peers: BTreeMap<String, Vec<(usize, usize)>> = BTreeMap::new();
                for (s, e, o) in layout.iter() {
                    match o {
                        Some(o) if *o == pi => local[0].1.push((*s, *e)),
                        Some(o) => {
                            let p = match o {
                                0 | 1 => P0,
                                2 => P1,
                                _ => P2,
                            };
                            peers.entry(p.to_string()).or_default().push((*s, *e));
                        }
                        None => {}
                    }
                }
                let m = SimMeta { epoch, force: false, cluster: "c0".into(), local: local.drain(..).collect(), peers: peers.into_iter().collect(), config: vec![] };
                ok &= install(cl, me, &m).await;
            }
        }
        ok
    }
    if !install_all(&mut cl, &layout, epoch, redirect).await {
        // a layout where P0 has no slot at all may legitimately be refused? no: it must be accepted
        rec.violate(Violation::new("C09", "layout-refused", format!("valid layout refused: {:?}", layout)));
    }
    let ops: Vec<Value> = plan["ops"].as_array().cloned().unwrap_or_default();
    let (mut n_local, mut n_moved, mut n_multi) = (0u64, 0u64, 0u64);
    for (i, o) in ops.iter().enumerate() {
        if o["relayout"].as_bool().unwrap_or(false) {
            epoch += 1;
            layout = gen_layout(&mut lrng, 4, gaps);
            if !install_all(&mut cl, &layout, epoch, redirect).await {
                rec.violate(Violation::new("C09", "layout-refused", format!("valid layout refused: {:?}", layout)));
            }
        }
        let shape = o["shape"].as_str().unwrap_or("GET");
        let mut keys: Vec<Vec<u8>> = o["keys"].as_array().map(|a| a.iter().map(|k| unhex(k.as_str().unwrap_or(""))).collect()).unwrap_or_default();
        if keys.is_empty() {
            continue;
        }
        if let Some(b) = o["boundary"].as_u64() {
            let mut edges: Vec<usize> = vec![];
            for (s, e, _) in layout.iter() {
                edges.push(*s);
                edges.push(*e);
                if *s == *e {
                    // weight single-slot ranges
                    edges.push(*s);
                    edges.push(*s);
                }
            }
            let slot = edges[(b % edges.len() as u64) as usize];
            let tag = crate::slots::tag_for_slot(slot);
            // first key on the edge; the others keep their slots (cross-slot shapes) or join it
            let join = (b >> 32) % 2 == 0;
            for (j, k) in keys.iter_mut().enumerate() {
                if j == 0 || join {
                    let mut nk = b"{".to_vec();
                    nk.extend_from_slice(&tag);
                    nk.extend_from_slice(format!("}}e{}", j).as_bytes());
                    *k = nk;
                }
            }
            rec.probe("c09_edge_slot_commands");
        }
        let slots: Vec<usize> = keys.iter().map(|k| slot_of(k)).collect();
        let val = format!("v{}", i).into_bytes();
        let mut cmd: Vec<Vec<u8>> = match shape {
            "KEYSLOT" => vec![b"CLUSTER".to_vec(), b"KEYSLOT".to_vec(), keys[0].clone()],
            "GET" => vec![b"GET".to_vec(), keys[0].clone()],
            "SET" => vec![b"SET".to_vec(), keys[0].clone(), val.clone()],
            "EXISTS1" => vec![b"EXISTS".to_vec(), keys[0].clone()],
            "DEL1" => vec![b"DEL".to_vec(), keys[0].clone()],
            "MGET" | "DEL" | "EXISTS" => {
                let mut c = vec![shape.as_bytes().to_vec()];
                c.extend(keys.iter().cloned());
                c
            }
            "MSET" | "MSETNX" => {
                let mut c = vec![shape.as_bytes().to_vec()];
                for k in keys.iter() {
                    c.push(k.clone());
                    c.push(val.clone());
                }
                c
            }
            "EVAL" => {
                let mut c = vec![b"EVAL".to_vec(), b"return 1".to_vec(), keys.len().to_string().into_bytes()];
                c.extend(keys.iter().cloned());
                c.push(b"arg".to_vec());
                c
            }
            _ => {
                let mut c = vec![b"BLPOP".to_vec()];
                c.extend(keys.iter().cloned());
                c.push(b"1".to_vec());
                c
            }
        };
        if cmd.is_empty() {
            cmd = vec![b"PING".to_vec()];
        }
        clear_logs(&net, &[0, 1, 2]);
        let reply = match cl.call_one(P0, &cmd).await {
            Ok(r) => r,
            Err(()) => {
                rec.violate(Violation::new("C09", "no-reply", format!("command #{} {} got no reply", i, crate::simnet::cmd_brief(&cmd))));
                continue;
            }
        };
        if shape == "KEYSLOT" {
            let got: Option<usize> = resp_to_strings(&reply).first().and_then(|s| s.parse().ok());
            if got != Some(slots[0]) {
                rec.violate(Violation::new("C09", "keyslot-differs", format!("CLUSTER KEYSLOT {:?} = {:?}, reference CRC16-XMODEM/hash-tag gives {}", String::from_utf8_lossy(&keys[0]), got, slots[0])));
            }
            continue;
        }
        // global: nothing for key k may execute on a node that does not own slot(k)
        for (k, s) in keys.iter().zip(slots.iter()) {
            let ex = executed_on(&net, &[0, 1, 2], k);
            let owner = owner_of(&layout, *s);
            for (node, c) in ex.iter() {
                let legal = owner.map(|o| &owner_node(o) == node).unwrap_or(false);
                if !legal {
                    rec.violate(Violation::new("C09", "executed-on-non-owner", format!("command #{} {}: {} for key {:?} (slot {}) executed on {} but the slot's owner is {:?}", i, crate::simnet::cmd_brief(&cmd), c, String::from_utf8_lossy(k), s, node, owner.map(owner_node))));
                }
            }
        }
        let multi = keys.len() > 1;
        let same = slots.iter().all(|s| *s == slots[0]);
        let etext = err_text(&reply);
        if multi {
            n_multi += 1;
            if !redirect && !same {
                let touched: usize = keys.iter().map(|k| executed_on(&net, &[0, 1, 2], k).len()).sum();
                if etext.is_none() || touched > 0 {
                    rec.violate(Violation::new("C09", "cross-slot-multi-key-not-refused", format!("command #{} {} has keys in slots {:?} and active redirection is off: reply {:?}, executions {}", i, crate::simnet::cmd_brief(&cmd), slots, resp_to_strings(&reply), touched)));
                }
                continue;
            }
        }
        if !multi || same {
            let s = slots[0];
            match owner_of(&layout, s) {
                Some(o) if owner_proxy(o) == P0 => {
                    n_local += 1;
                    let ex = executed_on(&net, &[0, 1, 2], &keys[0]);
                    if ex.is_empty() || etext.as_ref().map(|e| e.starts_with("MOVED") || e.contains("slot not covered")).unwrap_or(false) {
                        rec.violate(Violation::new("C09", "local-slot-not-executed", format!("command #{} {}: slot {} lies in a local range (node {}) but the reply was {:?} and executions {:?}", i, crate::simnet::cmd_brief(&cmd), s, owner_node(o), resp_to_strings(&reply), ex)));
                    }
                }
                Some(o) => {
                    if !redirect {
                        n_moved += 1;
                        let want = format!("MOVED {} {}", s, owner_proxy(o));
                        // multi-key replies may wrap the error of the first sub-command
                        if etext.as_deref() != Some(want.as_str()) {
                            rec.violate(Violation::new("C09", "wrong-moved-reply", format!("command #{} {}: slot {} belongs to peer {}; expected `{}` but got {:?}", i, crate::simnet::cmd_brief(&cmd), s, owner_proxy(o), want, resp_to_strings(&reply))));
                        }
                    } else {
                        let ex = executed_on(&net, &[0, 1, 2], &keys[0]);
                        if ex.is_empty() {
                            rec.violate(Violation::new("C09", "redirected-command-not-executed", format!("command #{} {}: slot {} belongs to peer {} and active redirection is on, but nothing executed (reply {:?})", i, crate::simnet::cmd_brief(&cmd), s, owner_proxy(o), resp_to_strings(&reply))));
                        }
                    }
                }
                None => {
                    if etext.is_none() || etext.as_ref().map(|e| e.starts_with("MOVED")).unwrap_or(false) {
                        rec.violate(Violation::new("C09", "uncovered-slot-not-error", format!("command #{} {}: nobody covers slot {} but the reply was {:?}", i, crate::simnet::cmd_brief(&cmd), s, resp_to_strings(&reply))));
                    }
                }
            }
        }
    }
    rec.probe_n("local_executions_judged", n_local);
    rec.probe_n("moved_replies_judged", n_moved);
    rec.probe_n("multi_key_commands", n_multi);
    rec.nontrivial = n_local > 0 && (n_moved > 0 || redirect) && n_multi > 0;
    finish(&net, &mut rec);
    let mut sh = crate::rng::TraceHash::new();
    sh.add(format!("{:?}", layout).as_bytes());
    rec.state_hash = sh.0;
    if want_sample {
        rec.sample = Some(json!({"plan_head": crate::framework::truncate_value(plan, 2500), "final_layout": format!("{:?}", layout)}));
    }
    rec
}

// ---------------------------------------------------------------------------
// C14 — advertisement of hand-built layouts (the reachable-state part lives in routesim)

async fn run_c14_layout(plan: &Value, want_sample: bool) -> RunRecord {
    let mut rec = RunRecord::default();
    let seed = plan["seed"].as_u64().unwrap_or(0);
    let net = Net::new(seed, 2);
    let pp = ProxyParams { nodes_v1: plan["nodes_v1"].as_bool().unwrap_or(false), ..Default::default() };
    spawn_redis_nodes(&net, 0, 0, seed);
    let _p0 = spawn_proxy(&net, P0, &pp, 1);
    let mut cl = Client::new(&net, 1);
    let mut lrng = Rng::new(plan["layout_seed"].as_u64().unwrap_or(0), "layout");
    let gaps = plan["gaps"].as_bool().unwrap_or(false);
    let l0 = node_addrs(0, 0).to_vec();
    let owner_proxy = |o: usize| -> &'static str {
        match o {
            0 | 1 => P0,
            2 => P1,
            _ => P2,
        }
    };
    let ops: Vec<Value> = plan["ops"].as_array().cloned().unwrap_or_default();
    let (mut judged, mut special) = (0u64, 0u64);
    let mut th = crate::rng::TraceHash::new();
    for (i, o) in ops.iter().enumerate() {
        let epoch = 1 + i as u64;
        let layout = gen_layout(&mut lrng, 4, gaps);
        let m0 = meta_from_layout(epoch, false, &layout, &l0, &[P1.to_string(), P2.to_string()], vec![]);
        if !install(&mut cl, P0, &m0).await {
            rec.violate(Violation::new("C14", "layout-refused", format!("valid layout refused: {:?}", layout)));
            continue;
        }
        let snap = crate::routesim::take_snap(&mut cl, P0).await;
        for p in snap.problems.iter() {
            rec.violate(Violation::new("C14", "slot-listed-twice-or-malformed", format!("layout {:?}: {}", layout, p)));
        }
        if !snap.problems.is_empty() {
            continue;
        }
        if snap.nodes != snap.slots {
            let diff = (0..16384).find(|x| snap.nodes.get(x) != snap.slots.get(x));
            rec.violate(Violation::new("C14", "nodes-slots-disagree", format!("CLUSTER NODES and CLUSTER SLOTS disagree, e.g. slot {:?}: {:?} vs {:?} (layout {:?})", diff, diff.and_then(|d| snap.nodes.get(&d)), diff.and_then(|d| snap.slots.get(&d)), layout)));
        }
        // advertisement against the installed layout, all 16384 slots
        let mut bad: Option<(usize, Option<String>, Option<String>)> = None;
        for (s, e, ow) in layout.iter() {
            let want = ow.map(|x| owner_proxy(x).to_string());
            if *s == *e || ow.is_none() {
                special += 1;
            }
            for slot in *s..=*e {
                let got = snap.nodes.get(&slot).cloned();
                if got != want && bad.is_none() {
                    bad = Some((slot, want.clone(), got));
                }
            }
        }
        if let Some((slot, want, got)) = bad {
            rec.violate(Violation::new("C14", "advertisement-differs-from-installed-layout", format!("slot {} belongs to {:?} in the installed layout but CLUSTER NODES lists it under {:?} (layout {:?})", slot, want, got, layout)));
        }
        // advertisement against observed routing on the edges and some random slots
        let mut slots: BTreeSet<usize> = BTreeSet::new();
        for (s, e, _) in layout.iter() {
            for x in [*s, *e, s.saturating_sub(1), (*e + 1).min(16383)] {
                slots.insert(x);
            }
        }
        let mut prng = Rng::new(o["pick"].as_u64().unwrap_or(0), "slots");
        for _ in 0..o["extra_slots"].as_u64().unwrap_or(8) {
            slots.insert(prng.below(16384) as usize);
        }
        for slot in slots {
            let mut key = b"{".to_vec();
            key.extend_from_slice(&crate::slots::tag_for_slot(slot));
            key.extend_from_slice(format!("}}adv{}", i).as_bytes());
            let r = cl.call_one(P0, &[b"GET".to_vec(), key]).await;
            let (local, moved) = match r.as_ref() {
                Ok(Resp::Bulk(_)) => (true, None),
                Ok(x) => (false, parse_moved(x).map(|(_, a)| a)),
                Err(()) => (false, None),
            };
            judged += 1;
            th.add_u64(slot as u64 * 4 + local as u64 * 2 + moved.is_some() as u64);
            match snap.nodes.get(&slot) {
                Some(a) if a == P0 => {
                    if !local {
                        rec.violate(Violation::new("C14", "advertised-self-but-redirected", format!("proxy advertises slot {} at itself but answered {:?} (layout {:?})", slot, r.as_ref().map(crate::cluster::resp_to_strings), layout)));
                    }
                }
                Some(a) => {
                    if local {
                        rec.violate(Violation::new("C14", "advertised-elsewhere-but-executed", format!("proxy advertises slot {} at {} but executed the probe itself", slot, a)));
                    } else if moved.as_ref() != Some(a) {
                        rec.violate(Violation::new("C14", "advertised-differs-from-moved", format!("proxy advertises slot {} at {} but answered {:?}", slot, a, r.as_ref().map(crate::cluster::resp_to_strings))));
                    }
                }
                None => {
                    if local || moved.is_some() {
                        rec.violate(Violation::new("C14", "served-but-not-advertised", format!("proxy lists slot {} under no node but handled a probe for it: {:?}", slot, r.as_ref().map(crate::cluster::resp_to_strings))));
                    }
                }
            }
        }
    }
    rec.probe_n("c14_layout_probes_judged", judged);
    rec.probe_n("c14_single_slot_ranges_or_gaps", special);
    rec.nontrivial = special > 0 && judged > 0;
    rec.vtime_ms = net.now_ms();
    {
        let g = net.inner.lock();
        rec.trace_hash = g.trace.0;
        rec.sched_hash = th.0;
        rec.steps = g.seq;
    }
    rec.state_hash = th.0;
    if want_sample {
        rec.sample = Some(json!({"plan": plan, "probes": judged}));
    }
    rec
}

// ---------------------------------------------------------------------------
// C20 — compression transparency

fn gen_value(kind: &str, size: usize, seed: u64) -> Vec<u8> {
    let mut rng = Rng::new(seed, "value");
    match kind {
        "ascii" => (0..size).map(|i| b"abcdefghij klmnop"[(i + seed as usize) % 17]).collect(),
        "zeros" => vec![0u8; size],
        "binary" => (0..size).map(|i| [0u8, 13, 10, 255, 36, 42][(i * 7 + seed as usize) % 6]).collect(),
        // values that look like what the proxy itself stores: a complete zstd frame, and
        // arbitrary bytes behind the zstd magic number
        "zframe" => {
            let inner: Vec<u8> = (0..size).map(|i| b"abcdefghij klmnop"[(i + seed as usize) % 17]).collect();
            zstd::encode_all(&inner[..], 1).unwrap_or(inner)
        }
        "zmagic" => {
            let mut v = vec![0x28u8, 0xB5, 0x2F, 0xFD];
            v.extend(rng.bytes(size));
            v
        }
        _ => rng.bytes(size),
    }
}

async fn run_c20(plan: &Value, want_sample: bool) -> RunRecord {
    let mut rec = RunRecord::default();
    let seed = plan["seed"].as_u64().unwrap_or(0);
    let strategy = plan["strategy"].as_str().unwrap_or("disabled").to_string();
    let redirect = plan["active_redirection"].as_bool().unwrap_or(false);
    let net = Net::new(seed, 2);
    let pp = ProxyParams { active_redirection: redirect, max_redirections: plan["max_redirections"].as_u64().unwrap_or(4) as usize, ..Default::default() };
    for h in 0..2 {
        spawn_redis_nodes(&net, h, 0, seed);
    }
    let _p0 = spawn_proxy(&net, P0, &pp, 1);
    let _p1 = spawn_proxy(&net, P1, &pp, 1);
    let mut cl = Client::new(&net, 1);
    let cfgv = vec![("compression_strategy".to_string(), strategy.clone())];
    let n0 = node_addrs(0, 0)[0].clone();
    let n1 = node_addrs(1, 0)[0].clone();
    let m0 = SimMeta { epoch: 1, force: false, cluster: "c0".into(), local: vec![(n0.clone(), vec![(0, 8191)])], peers: vec![(P1.into(), vec![(8192, 16383)])], config: cfgv.clone() };
    let m1 = SimMeta { epoch: 1, force: false, cluster: "c0".into(), local: vec![(n1.clone(), vec![(8192, 16383)])], peers: vec![(P0.into(), vec![(0, 8191)])], config: cfgv };
    let a = cl.call_one(P0, &encode_setcluster(&m0)).await;
    let b = cl.call_one(P1, &encode_setcluster(&m1)).await;
    if !matches!(a, Ok(Resp::Simple(_))) || !matches!(b, Ok(Resp::Simple(_))) {
        rec.harness_error = Some(format!("metadata not installed: {:?} {:?}", a.map(|r| resp_to_strings(&r)), b.map(|r| resp_to_strings(&r))));
        return rec;
    }
    let enabled = strategy != "disabled";
    let keyname = |k: u64| -> Vec<u8> { format!("{{ck{}}}key", k).into_bytes() };
    let mut model: BTreeMap<Vec<u8>, Vec<u8>> = BTreeMap::new();
    let mut compressed_roundtrips = 0u64;
    let ops: Vec<Value> = plan["ops"].as_array().cloned().unwrap_or_default();
    let proxies = [P0, P1];
    for (i, o) in ops.iter().enumerate() {
        let shape = o["shape"].as_str().unwrap_or("GET");
        let k = keyname(o["k"].as_u64().unwrap_or(0));
        // second key in the same slot (hash tag) so that multi-key commands are legal without redirection
        let k2 = format!("{{ck{}}}other", o["k"].as_u64().unwrap_or(0)).into_bytes();
        let v = gen_value(o["vkind"].as_str().unwrap_or("ascii"), o["size"].as_u64().unwrap_or(3) as usize, o["vseed"].as_u64().unwrap_or(0));
        let v2 = gen_value("random", 17, o["vseed"].as_u64().unwrap_or(0) ^ 5);
        let via = proxies[o["via"].as_u64().unwrap_or(0) as usize % 2];
        let opt = o["opt"].as_str().unwrap_or("EX");
        let cmd: Vec<Vec<u8>> = match shape {
            "SET" => vec![b"SET".to_vec(), k.clone(), v.clone()],
            "SETOPT" => match opt {
                "EX" => vec![b"SET".to_vec(), k.clone(), v.clone(), b"EX".to_vec(), b"1000".to_vec()],
                "PX" => vec![b"SET".to_vec(), k.clone(), v.clone(), b"PX".to_vec(), b"1000000".to_vec()],
                other => vec![b"SET".to_vec(), k.clone(), v.clone(), other.as_bytes().to_vec()],
            },
            "SETEX" => vec![b"SETEX".to_vec(), k.clone(), b"1000".to_vec(), v.clone()],
            "PSETEX" => vec![b"PSETEX".to_vec(), k.clone(), b"1000000".to_vec(), v.clone()],
            "SETNX" => vec![b"SETNX".to_vec(), k.clone(), v.clone()],
            "GETSET" => vec![b"GETSET".to_vec(), k.clone(), v.clone()],
            "MSET" => vec![b"MSET".to_vec(), k.clone(), v.clone(), k2.clone(), v2.clone()],
            "MSETNX" => vec![b"MSETNX".to_vec(), k.clone(), v.clone(), k2.clone(), v2.clone()],
            "GET" => vec![b"GET".to_vec(), k.clone()],
            "MGET" => vec![b"MGET".to_vec(), k.clone(), k2.clone()],
            "RESTRICTED" => match o["vseed"].as_u64().unwrap_or(0) % 4 {
                0 => vec![b"APPEND".to_vec(), k.clone(), b"x".to_vec()],
                1 => vec![b"STRLEN".to_vec(), k.clone()],
                2 => vec![b"GETRANGE".to_vec(), k.clone(), b"0".to_vec(), b"1".to_vec()],
                _ => vec![b"INCR".to_vec(), k.clone()],
            },
            _ => match o["vseed"].as_u64().unwrap_or(0) % 3 {
                0 => vec![b"EXISTS".to_vec(), k.clone()],
                1 => vec![b"TTL".to_vec(), k.clone()],
                _ => vec![b"LLEN".to_vec(), format!("{{ck{}}}list", o["k"].as_u64().unwrap_or(0)).into_bytes()],
            },
        };
        clear_logs(&net, &[0, 1]);
        let r = cl.call(via, &cmd, 3).await;
        let reply = match r.reply {
            Ok(x) => x,
            Err(()) => {
                rec.violate(Violation::new("C20", "no-reply", format!("command #{} {} got no reply", i, crate::simnet::cmd_brief(&cmd))));
                continue;
            }
        };
        let name = String::from_utf8_lossy(&cmd[0]).to_string();
        if std::env::var("VERIF_DEBUG").is_ok() {
            eprintln!("#{} {} via {} path {:?} -> {}", i, crate::simnet::cmd_brief(&cmd).chars().take(60).collect::<String>(), via, r.path, crate::simredis::resp_brief(&reply).chars().take(80).collect::<String>());
            for h in 0..2 {
                if let Some(n) = net.redis(&node_addrs(h, 0)[0]) {
                    for e in n.lock().log.iter() {
                        eprintln!("    node{} exec {} -> {}", h, crate::simnet::cmd_brief(&e.cmd).chars().take(70).collect::<String>(), e.reply.chars().take(50).collect::<String>());
                    }
                }
            }
        }
        // what reached the data node
        let owner_h = if slot_of(&k) <= 8191 { 0 } else { 1 };
        let node = net.redis(&node_addrs(owner_h, 0)[0]);
        let logged: Vec<Vec<Vec<u8>>> = node.as_ref().map(|n| n.lock().log.iter().map(|e| e.cmd.clone()).collect()).unwrap_or_default();
        let stored = |key: &Vec<u8>| -> Option<Vec<u8>> {
            node.as_ref().and_then(|n| {
                n.lock().data.get(key).and_then(|e| match &e.val {
                    Val::Str(s) => Some(s.clone()),
                    _ => None,
                })
            })
        };
        let check_stored = |rec: &mut RunRecord, key: &Vec<u8>, want: &Vec<u8>, what: &str| {
            if let Some(s) = stored(key) {
                if enabled {
                    match zstd::decode_all(&s[..]) {
                        Ok(d) if &d == want => {
                            if &s == want && !want.is_empty() {
                                rec.violate(Violation::new("C20", "value-not-compressed", format!("{}: strategy {} but the stored bytes equal the plain value ({} bytes)", what, strategy, want.len())));
                            }
                        }
                        other => {
                            rec.violate(Violation::new("C20", "stored-bytes-do-not-decode", format!("{}: stored bytes ({} B) do not zstd-decode to the written value ({} B): {:?}", what, s.len(), want.len(), other.map(|d| d.len()))));
                        }
                    }
                } else if &s != want {
                    rec.violate(Violation::new("C20", "value-altered-while-disabled", format!("{}: compression disabled but stored bytes differ from the value", what)));
                }
            }
        };
        match shape {
            "SET" | "SETOPT" | "SETEX" | "PSETEX" | "SETNX" | "GETSET" | "MSET" | "MSETNX" => {
                // keys, options and non-value arguments must arrive unaltered
                let vidx: Vec<usize> = match shape {
                    "SETEX" | "PSETEX" => vec![3],
                    "MSET" | "MSETNX" => vec![2, 4],
                    _ => vec![2],
                };
                // multi-key commands are split into single-key ones by the proxy
                let sent_args: Vec<Vec<u8>> = cmd.iter().enumerate().filter(|(j, _)| *j > 0 && !vidx.contains(j)).map(|(_, a)| a.clone()).collect();
                let arrived: Vec<Vec<u8>> = logged.iter().filter(|c| !c.is_empty() && [b"SET".as_ref(), b"SETEX", b"PSETEX", b"SETNX", b"GETSET", b"MSET", b"MSETNX"].contains(&&c[0].to_ascii_uppercase()[..])).flat_map(|c| c.iter().skip(1).cloned().collect::<Vec<_>>()).collect();
                for a in sent_args.iter() {
                    if !arrived.contains(a) && !logged.is_empty() {
                        rec.violate(Violation::new("C20", "non-value-argument-altered", format!("command #{} {}: argument {:?} did not arrive unaltered at the data node (arrived: {} args)", i, crate::simnet::cmd_brief(&cmd), String::from_utf8_lossy(a), arrived.len())));
                    }
                }
                // model update according to the reply
                let applied = match (shape, &reply) {
                    ("SETNX", Resp::Integer(x)) | ("MSETNX", Resp::Integer(x)) => x == b"1",
                    ("SETOPT", Resp::Bulk(BulkStr::Nil)) => false,
                    (_, Resp::Error(e)) => {
                        rec.violate(Violation::new("C20", "write-refused", format!("command #{} {} was refused: {}", i, crate::simnet::cmd_brief(&cmd), String::from_utf8_lossy(e))));
                        false
                    }
                    _ => true,
                };
                if shape == "GETSET" {
                    let want = model.get(&k).cloned();
                    let got = match &reply {
                        Resp::Bulk(BulkStr::Str(s)) => Some(s.clone()),
                        _ => None,
                    };
                    if got != want {
                        rec.violate(Violation::new("C20", "read-differs", format!("command #{} GETSET returned {:?} bytes, model has {:?} bytes", i, got.map(|g| g.len()), want.map(|w| w.len()))));
                    }
                }
                if applied {
                    model.insert(k.clone(), v.clone());
                    check_stored(&mut rec, &k, &v, &format!("command #{} {}", i, name));
                    if shape == "MSET" || shape == "MSETNX" {
                        model.insert(k2.clone(), v2.clone());
                        check_stored(&mut rec, &k2, &v2, &format!("command #{} {} (second pair)", i, name));
                    }
                    if enabled && !v.is_empty() {
                        compressed_roundtrips += 1;
                    }
                }
            }
            "GET" => {
                let want = model.get(&k).cloned();
                let got = match &reply {
                    Resp::Bulk(BulkStr::Str(s)) => Some(s.clone()),
                    Resp::Bulk(BulkStr::Nil) => None,
                    other => {
                        rec.violate(Violation::new("C20", "read-differs", format!("command #{} GET answered {:?}", i, resp_to_strings(other).iter().map(|s| s.chars().take(60).collect::<String>()).collect::<Vec<_>>())));
                        continue;
                    }
                };
                if got != want {
                    rec.violate(Violation::new("C20", "read-differs", format!("command #{} GET via {} returned {:?} bytes, the written value has {:?} bytes (strategy {})", i, via, got.map(|g| g.len()), want.map(|w| w.len()), strategy)));
                }
            }
            "MGET" => {
                if strategy == "set_get_only" || true {
                    let want = vec![model.get(&k).cloned(), model.get(&k2).cloned()];
                    let got: Option<Vec<Option<Vec<u8>>>> = match &reply {
                        Resp::Arr(Array::Arr(v)) => Some(v.iter().map(|x| match x {
                            Resp::Bulk(BulkStr::Str(s)) => Some(s.clone()),
                            _ => None,
                        }).collect()),
                        _ => None,
                    };
                    if got.as_ref() != Some(&want) {
                        rec.violate(Violation::new("C20", "read-differs", format!("command #{} MGET via {} returned {:?}, model {:?} (byte lengths; strategy {})", i, via, got.map(|g| g.iter().map(|x| x.as_ref().map(|b| b.len())).collect::<Vec<_>>()), want.iter().map(|x| x.as_ref().map(|b| b.len())).collect::<Vec<_>>(), strategy)));
                    }
                }
            }
            "RESTRICTED" => {
                if strategy == "set_get_only" {
                    let reached = logged.iter().any(|c| c.first().map(|n| n.eq_ignore_ascii_case(&cmd[0])).unwrap_or(false));
                    if !matches!(reply, Resp::Error(_)) || reached {
                        rec.violate(Violation::new("C20", "restricted-command-not-refused", format!("command #{} {} under set_get_only: reply {:?}, reached the data node: {}", i, crate::simnet::cmd_brief(&cmd), resp_to_strings(&reply), reached)));
                    }
                    rec.probe("restricted_refused");
                } else if name == "APPEND" || name == "INCR" {
                    // the command may have changed the stored bytes; forget the key in the model
                    model.remove(&k);
                    let _ = cl.call(via, &bulk_cmd(&[b"DEL", &k]), 3).await;
                }
            }
            _ => {
                // non-string replies must be unaltered: compare with what the data node answered
                let node_reply = node.as_ref().and_then(|n| n.lock().log.iter().rev().find(|e| e.cmd.first().map(|c| c.eq_ignore_ascii_case(&cmd[0])).unwrap_or(false)).map(|e| e.reply.clone()));
                if let Some(nr) = node_reply {
                    if crate::simredis::resp_brief(&reply) != nr {
                        rec.violate(Violation::new("C20", "non-string-reply-altered", format!("command #{} {}: data node answered {} but the client got {}", i, crate::simnet::cmd_brief(&cmd), nr, crate::simredis::resp_brief(&reply))));
                    }
                }
            }
        }
    }
    rec.probe_n("compressed_values_written", compressed_roundtrips);
    rec.nontrivial = compressed_roundtrips > 0 || !enabled;
    finish(&net, &mut rec);
    let mut sh = crate::rng::TraceHash::new();
    for (k, v) in model.iter() {
        sh.add(k);
        sh.add_u64(v.len() as u64);
    }
    rec.state_hash = sh.0;
    if want_sample {
        rec.sample = Some(json!({"plan_head": crate::framework::truncate_value(plan, 2500), "keys_in_model": model.len(), "strategy": strategy}));
    }
    rec
}
