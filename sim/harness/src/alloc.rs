//! Counting global allocator: current and peak live bytes of the process
//! (per forked child; the peak is reset when a child starts).
use std::alloc::{GlobalAlloc, Layout, System};
use std::sync::atomic::{AtomicU64, Ordering};

pub struct Counting;

static CUR: AtomicU64 = AtomicU64::new(0);
static PEAK: AtomicU64 = AtomicU64::new(0);

unsafe impl GlobalAlloc for Counting {
    unsafe fn alloc(&self, l: Layout) -> *mut u8 {
        let p = System.alloc(l);
        if !p.is_null() {
            let c = CUR.fetch_add(l.size() as u64, Ordering::Relaxed) + l.size() as u64;
            PEAK.fetch_max(c, Ordering::Relaxed);
        }
        p
    }
    unsafe fn dealloc(&self, p: *mut u8, l: Layout) {
        System.dealloc(p, l);
        CUR.fetch_sub(l.size() as u64, Ordering::Relaxed);
    }
    unsafe fn realloc(&self, p: *mut u8, l: Layout, new_size: usize) -> *mut u8 {
        let q = System.realloc(p, l, new_size);
        if !q.is_null() {
            if new_size >= l.size() {
                let c = CUR.fetch_add((new_size - l.size()) as u64, Ordering::Relaxed) + (new_size - l.size()) as u64;
                PEAK.fetch_max(c, Ordering::Relaxed);
            } else {
                CUR.fetch_sub((l.size() - new_size) as u64, Ordering::Relaxed);
            }
        }
        q
    }
}

pub fn reset_peak() {
    PEAK.store(CUR.load(Ordering::Relaxed), Ordering::Relaxed);
}

/// peak live bytes since the last reset, relative to the level at the reset
pub fn peak_bytes() -> u64 {
    PEAK.load(Ordering::Relaxed)
}
