//! Engine E2 — cluster-sim world: real broker service + real coordinator loops
//! + real proxies (Session<SharedForwardHandler>) + SimRedis nodes + clients,
//! all on SimNet inside one single-threaded tokio runtime with a paused clock.

use crate::broker::{host_name, new_service, node_addrs, proxy_addr, Cfg as BrokerCfg};
use crate::simnet::{Conn, Endpoint, Net, SimClientFactory, SimConnFactory};
use crate::simredis::SimRedis;
use arc_swap::ArcSwap;
use futures::channel::mpsc;
use futures::{stream, Future, FutureExt, Stream, StreamExt};
use parking_lot::Mutex;
use std::collections::BTreeMap;
use std::num::NonZeroUsize;
use std::pin::Pin;
use std::sync::atomic::{AtomicI64, AtomicU64};
use std::sync::Arc;
use std::time::Duration;
use undermoon::broker::{MemBrokerService, MetaStore, MetaStoreError, ProxyResourcePayload};
use undermoon::common::batch::BatchStrategy;
use undermoon::common::cluster::{Cluster, ClusterName, MigrationTaskMeta, Proxy};
use undermoon::common::track::TrackedFutureRegistry;
use undermoon::coordinator::broker::{MetaDataBroker, MetaDataBrokerError, MetaManipulationBroker, MetaManipulationBrokerError};
use undermoon::coordinator::service::{CoordinatorConfig, CoordinatorService};
use undermoon::protocol::{Array, BulkStr, Resp, RespVec};
use undermoon::proxy::executor::SharedForwardHandler;
use undermoon::proxy::manager::MetaMap;
use undermoon::proxy::service::{ClusterNodesVersion, ServerProxyConfig};
use undermoon::proxy::session::Session;
use undermoon::proxy::slowlog::SlowRequestLogger;

pub type Handler = SharedForwardHandler<SimClientFactory, SimConnFactory>;

#[derive(Clone, Debug)]
pub struct ProxyParams {
    pub backend_conn_num: usize,
    pub active_redirection: bool,
    pub nodes_v1: bool,
    pub batch: u8,
    pub backend_timeout_ms: u64,
    /// redirection budget when active redirection is on (2 = a forwarded command arrives as `UMFORWARD 0`)
    pub max_redirections: usize,
}

impl Default for ProxyParams {
    fn default() -> Self {
        Self {
            backend_conn_num: 2,
            active_redirection: false,
            nodes_v1: false,
            batch: 0,
            backend_timeout_ms: 3000,
            max_redirections: 4,
        }
    }
}

pub struct SimProxy {
    pub addr: String,
    pub session: Arc<Session<Handler>>,
    pub generation: u64,
}

pub fn proxy_config(addr: &str, pp: &ProxyParams) -> ServerProxyConfig {
    let host = addr.split(':').next().unwrap_or("").to_string();
    ServerProxyConfig {
        address: addr.to_string(),
        announce_address: addr.to_string(),
        announce_host: host,
        slowlog_len: NonZeroUsize::new(16).expect("nz"),
        slowlog_log_slower_than: AtomicI64::new(i64::MAX / 2),
        slowlog_sample_rate: AtomicU64::new(1_000_000),
        thread_number: NonZeroUsize::new(1).expect("nz"),
        backend_conn_num: NonZeroUsize::new(pp.backend_conn_num.max(1)).expect("nz"),
        active_redirection: pp.active_redirection,
        max_redirections: if pp.active_redirection { NonZeroUsize::new(pp.max_redirections.max(1)) } else { None },
        default_redirection_address: None,
        backend_batch_strategy: match pp.batch {
            1 => BatchStrategy::Fixed,
            2 => BatchStrategy::Dynamic,
            _ => BatchStrategy::Disabled,
        },
        backend_flush_size: NonZeroUsize::new(1024).expect("nz"),
        backend_low_flush_interval: Duration::from_nanos(200_000),
        backend_high_flush_interval: Duration::from_nanos(600_000),
        session_timeout: None,
        backend_timeout: Duration::from_millis(pp.backend_timeout_ms),
        password: None,
        command_cluster_nodes_version: if pp.nodes_v1 { ClusterNodesVersion::V1 } else { ClusterNodesVersion::V2 },
    }
}

/// Creates a real proxy exactly as bin/server_proxy.rs wires it (minus the TCP accept loop)
/// and registers it as a SimNet endpoint.
pub fn spawn_proxy(net: &Net, addr: &str, pp: &ProxyParams, generation: u64) -> SimProxy {
    let config = Arc::new(proxy_config(addr, pp));
    let src = format!("proxy:{}#{}", addr, generation);
    let client_factory = SimClientFactory {
        net: net.clone(),
        src: src.clone(),
        timeout: Duration::from_secs(1),
    };
    let slow_request_logger = Arc::new(SlowRequestLogger::new(config.clone()));
    let meta_map = Arc::new(ArcSwap::new(Arc::new(MetaMap::empty())));
    let future_registry = Arc::new(TrackedFutureRegistry::default());
    let (stopped_tx, _stopped_rx) = mpsc::unbounded();
    let handler = SharedForwardHandler::new(
        config.clone(),
        Arc::new(client_factory),
        slow_request_logger.clone(),
        meta_map,
        Arc::new(SimConnFactory { net: net.clone(), src }),
        future_registry,
        stopped_tx,
    );
    let session = Arc::new(Session::new(generation as usize, handler, slow_request_logger, config));
    net.register(addr, Endpoint::Proxy(session.clone()));
    SimProxy {
        addr: addr.to_string(),
        session,
        generation,
    }
}

pub fn spawn_redis_nodes(net: &Net, h: usize, i: usize, seed: u64) {
    for a in node_addrs(h, i).iter() {
        let salt = crate::rng::hash3(seed, crate::rng::stream_id("scan"), crate::rng::stream_id(a));
        net.register(a, Endpoint::Redis(Arc::new(Mutex::new(SimRedis::new(a.clone(), salt)))));
    }
}

// ---------------------------------------------------------------------------
// broker behind the coordinator's broker traits

pub struct BrokerHolder {
    pub svc: Mutex<Arc<MemBrokerService>>,
    pub cfg: BrokerCfg,
    pub commits_ok: Mutex<Vec<(u64, String)>>,
    /// (seq, coordinator label, src proxy, dst proxy)
    pub commit_rounds: Mutex<Vec<(u64, String, String, String)>>,
    pub commits_notfound: AtomicU64,
}

impl BrokerHolder {
    pub fn new(cfg: BrokerCfg) -> Arc<Self> {
        let svc = new_service(&cfg, None).expect("broker");
        Arc::new(Self {
            svc: Mutex::new(Arc::new(svc)),
            cfg,
            commits_ok: Mutex::new(vec![]),
            commit_rounds: Mutex::new(vec![]),
            commits_notfound: AtomicU64::new(0),
        })
    }
    pub fn get(&self) -> Arc<MemBrokerService> {
        self.svc.lock().clone()
    }
    pub fn restart_from(&self, snapshot: MetaStore) -> Result<(), MetaStoreError> {
        let svc = new_service(&self.cfg, Some(snapshot))?;
        *self.svc.lock() = Arc::new(svc);
        Ok(())
    }
    pub async fn add_proxy(&self, h: usize, i: usize) -> Result<(), MetaStoreError> {
        let v = serde_json::json!({"proxy_address": proxy_addr(h, i), "nodes": node_addrs(h, i), "host": host_name(h), "index": Option::<usize>::None});
        let p: ProxyResourcePayload = serde_json::from_value(v).expect("payload");
        self.get().add_proxy(p).await
    }
}

pub struct SimBrokerClient {
    pub holder: Arc<BrokerHolder>,
    pub net: Net,
    pub src: String,
}

fn json_roundtrip<T: serde::Serialize + serde::de::DeserializeOwned>(v: &T) -> Option<T> {
    // the HTTP hop serialises every payload
    serde_json::to_string(v).ok().and_then(|s| serde_json::from_str(&s).ok())
}

#[derive(PartialEq)]
enum CallFault {
    None,
    DropRequest,
    DropReply,
    Duplicate,
}

impl SimBrokerClient {
    async fn hop(&self, what: &str) -> CallFault {
        let seed = self.net.inner.lock().seed;
        let seq = self.net.event("broker_call", 7, what);
        let lat = 1 + crate::rng::hash3(seed, crate::rng::stream_id(&self.src), seq) % 3;
        tokio::time::sleep(Duration::from_millis(lat)).await;
        match self.net.fault_for_pub(&self.src, "broker") {
            Some(crate::simnet::FaultKind::DropRequest) | Some(crate::simnet::FaultKind::Reset) => CallFault::DropRequest,
            Some(crate::simnet::FaultKind::DropReply) => CallFault::DropReply,
            Some(crate::simnet::FaultKind::Duplicate) => CallFault::Duplicate,
            _ => CallFault::None,
        }
    }
}

impl MetaDataBroker for SimBrokerClient {
    fn get_cluster_names<'s>(&'s self) -> Pin<Box<dyn Stream<Item = Result<ClusterName, MetaDataBrokerError>> + Send + 's>> {
        let fut = async move {
            let f = self.hop("get_cluster_names").await;
            if f == CallFault::DropRequest || f == CallFault::DropReply {
                return vec![Err(MetaDataBrokerError::RequestFailed)];
            }
            match self.holder.get().get_cluster_names(None, None).await {
                Ok(names) => names.into_iter().map(Ok).collect::<Vec<_>>(),
                Err(_) => vec![Err(MetaDataBrokerError::InvalidReply)],
            }
        };
        Box::pin(fut.map(stream::iter).flatten_stream())
    }

    fn get_cluster<'s>(&'s self, name: ClusterName) -> Pin<Box<dyn Future<Output = Result<Option<Cluster>, MetaDataBrokerError>> + Send + 's>> {
        Box::pin(async move {
            let f = self.hop("get_cluster").await;
            if f == CallFault::DropRequest || f == CallFault::DropReply {
                return Err(MetaDataBrokerError::RequestFailed);
            }
            match self.holder.get().get_cluster_by_name(name.as_str()).await {
                Ok(c) => Ok(c.and_then(|c| json_roundtrip(&c))),
                Err(_) => Err(MetaDataBrokerError::InvalidReply),
            }
        })
    }

    fn get_proxy_addresses<'s>(&'s self) -> Pin<Box<dyn Stream<Item = Result<String, MetaDataBrokerError>> + Send + 's>> {
        let fut = async move {
            let f = self.hop("get_proxy_addresses").await;
            if f == CallFault::DropRequest || f == CallFault::DropReply {
                return vec![Err(MetaDataBrokerError::RequestFailed)];
            }
            match self.holder.get().get_proxy_addresses(None, None).await {
                Ok(a) => a.into_iter().map(Ok).collect::<Vec<_>>(),
                Err(_) => vec![Err(MetaDataBrokerError::InvalidReply)],
            }
        };
        Box::pin(fut.map(stream::iter).flatten_stream())
    }

    fn get_proxy<'s>(&'s self, address: String) -> Pin<Box<dyn Future<Output = Result<Option<Proxy>, MetaDataBrokerError>> + Send + 's>> {
        Box::pin(async move {
            let f = self.hop("get_proxy").await;
            if f == CallFault::DropRequest || f == CallFault::DropReply {
                return Err(MetaDataBrokerError::RequestFailed);
            }
            match self.holder.get().get_proxy_by_address(&address).await {
                Ok(p) => Ok(p.and_then(|p| json_roundtrip(&p))),
                Err(_) => Err(MetaDataBrokerError::InvalidReply),
            }
        })
    }

    fn add_failure<'s>(&'s self, address: String, reporter_id: String) -> Pin<Box<dyn Future<Output = Result<(), MetaDataBrokerError>> + Send + 's>> {
        Box::pin(async move {
            let f = self.hop("add_failure").await;
            if f == CallFault::DropRequest {
                return Err(MetaDataBrokerError::RequestFailed);
            }
            let r = self.holder.get().add_failure(address.clone(), reporter_id.clone()).await;
            if f == CallFault::Duplicate {
                let _ = self.holder.get().add_failure(address, reporter_id).await;
            }
            if f == CallFault::DropReply {
                return Err(MetaDataBrokerError::RequestFailed);
            }
            r.map_err(|_| MetaDataBrokerError::InvalidReply)
        })
    }

    fn get_failures<'s>(&'s self) -> Pin<Box<dyn Stream<Item = Result<String, MetaDataBrokerError>> + Send + 's>> {
        let fut = async move {
            let f = self.hop("get_failures").await;
            if f == CallFault::DropRequest || f == CallFault::DropReply {
                return vec![Err(MetaDataBrokerError::RequestFailed)];
            }
            match self.holder.get().get_failures().await {
                Ok(a) => a.into_iter().map(Ok).collect::<Vec<_>>(),
                Err(_) => vec![Err(MetaDataBrokerError::InvalidReply)],
            }
        };
        Box::pin(fut.map(stream::iter).flatten_stream())
    }

    fn get_failed_proxies<'s>(&'s self) -> Pin<Box<dyn Stream<Item = Result<String, MetaDataBrokerError>> + Send + 's>> {
        let fut = async move {
            let f = self.hop("get_failed_proxies").await;
            if f == CallFault::DropRequest || f == CallFault::DropReply {
                return vec![Err(MetaDataBrokerError::RequestFailed)];
            }
            match self.holder.get().get_failed_proxies().await {
                Ok(a) => a.into_iter().map(Ok).collect::<Vec<_>>(),
                Err(_) => vec![Err(MetaDataBrokerError::InvalidReply)],
            }
        };
        Box::pin(fut.map(stream::iter).flatten_stream())
    }
}

impl MetaManipulationBroker for SimBrokerClient {
    fn replace_proxy<'s>(&'s self, failed_proxy_address: String) -> Pin<Box<dyn Future<Output = Result<Option<Proxy>, MetaManipulationBrokerError>> + Send + 's>> {
        Box::pin(async move {
            let f = self.hop("replace_proxy").await;
            if f == CallFault::DropRequest {
                return Err(MetaManipulationBrokerError::RequestFailed);
            }
            let r = self.holder.get().replace_failed_proxy(failed_proxy_address.clone()).await;
            if f == CallFault::Duplicate {
                let _ = self.holder.get().replace_failed_proxy(failed_proxy_address).await;
            }
            if f == CallFault::DropReply {
                return Err(MetaManipulationBrokerError::RequestFailed);
            }
            match r {
                Ok(p) => Ok(p.and_then(|p| json_roundtrip(&p))),
                Err(e) => Err(map_mani_err(&e)),
            }
        })
    }

    fn commit_migration<'s>(&'s self, meta: MigrationTaskMeta) -> Pin<Box<dyn Future<Output = Result<(), MetaManipulationBrokerError>> + Send + 's>> {
        Box::pin(async move {
            let f = self.hop("commit_migration").await;
            if f == CallFault::DropRequest {
                return Err(MetaManipulationBrokerError::RequestFailed);
            }
            let meta = match json_roundtrip(&meta) {
                Some(m) => m,
                None => return Err(MetaManipulationBrokerError::InvalidReply),
            };
            let key = format!("{} {} {:?}", meta.cluster_name, meta.slot_range.get_range_list(), meta.slot_range.tag.get_migration_meta().map(|m| m.epoch));
            let mut results = vec![];
            let times = if f == CallFault::Duplicate { 2 } else { 1 };
            for _ in 0..times {
                let r = self.holder.get().commit_migration(meta.clone()).await;
                match &r {
                    Ok(()) => {
                        let seq = self.net.event("commit_ok", 9, &key);
                        self.holder.commits_ok.lock().push((seq, key.clone()));
                        if let Some(m) = meta.slot_range.tag.get_migration_meta() {
                            self.holder.commit_rounds.lock().push((seq, self.src.clone(), m.src_proxy_address.clone(), m.dst_proxy_address.clone()));
                        }
                    }
                    Err(MetaStoreError::MigrationTaskNotFound) => {
                        self.holder.commits_notfound.fetch_add(1, std::sync::atomic::Ordering::SeqCst);
                        self.net.event("commit_notfound", 9, &key);
                    }
                    Err(_) => {
                        self.net.event("commit_err", 9, &key);
                    }
                }
                results.push(r);
            }
            if f == CallFault::DropReply {
                return Err(MetaManipulationBrokerError::RequestFailed);
            }
            match results.into_iter().next().expect("result") {
                Ok(()) => Ok(()),
                // 404 is treated as success by the HTTP client
                Err(MetaStoreError::MigrationTaskNotFound) | Err(MetaStoreError::ClusterNotFound) => Ok(()),
                Err(e) => Err(map_mani_err(&e)),
            }
        })
    }
}

fn map_mani_err(e: &MetaStoreError) -> MetaManipulationBrokerError {
    use MetaStoreError::*;
    match e {
        // 409 CONFLICT
        InUse | NotInUse | NoAvailableResource | ResourceNotBalance | AlreadyExisted | FreeNodeFound | NodeNumAlreadyEnough | MigrationRunning | InvalidMetaVersion | SmallEpoch | ProxyResourceOutOfOrder
        | OrderedProxyEnabled | OneClusterAlreadyExisted | NodeNumberChanging | Retry => MetaManipulationBrokerError::Retry,
        _ => MetaManipulationBrokerError::InvalidReply,
    }
}

// ---------------------------------------------------------------------------
// coordinator "process": the four production loops as tasks

pub struct Coordinator {
    pub idx: usize,
    pub handles: Vec<tokio::task::JoinHandle<()>>,
}

pub type CoordSvc = CoordinatorService<SimBrokerClient, SimBrokerClient, SimClientFactory>;

pub fn spawn_coordinator(net: &Net, holder: &Arc<BrokerHolder>, idx: usize, enable_compression: bool, disable_failover: bool) -> Coordinator {
    let src = format!("coord:{}", idx);
    let config = CoordinatorConfig {
        address: format!("127.0.0.1:{}", 6699 + idx),
        broker_addresses: Arc::new(ArcSwap::new(Arc::new(vec!["broker:7799".to_string()]))),
        reporter_id: format!("coord{}", idx),
        thread_number: 1,
        proxy_timeout: 2,
        enable_compression,
        disable_failover,
    };
    let data = Arc::new(SimBrokerClient { holder: holder.clone(), net: net.clone(), src: src.clone() });
    let mani = Arc::new(SimBrokerClient { holder: holder.clone(), net: net.clone(), src: src.clone() });
    let factory = SimClientFactory { net: net.clone(), src, timeout: Duration::from_secs(2) };
    let svc: Arc<CoordSvc> = Arc::new(CoordinatorService::new(config, data, mani, factory));
    let mut handles = vec![];
    let s = svc.clone();
    handles.push(tokio::spawn(crate::simnet::LOOP_KIND.scope("detect", async move {
        let _ = s.verif_loop_detect().await;
    })));
    let s = svc.clone();
    handles.push(tokio::spawn(crate::simnet::LOOP_KIND.scope("psync", async move {
        let _ = s.verif_loop_proxy_sync().await;
    })));
    let s = svc.clone();
    handles.push(tokio::spawn(crate::simnet::LOOP_KIND.scope("msync", async move {
        let _ = s.verif_loop_migration_sync().await;
    })));
    if !disable_failover {
        let s = svc;
        handles.push(tokio::spawn(crate::simnet::LOOP_KIND.scope("failover", async move {
            let _ = s.verif_loop_failure_handler().await;
        })));
    }
    Coordinator { idx, handles }
}

impl Coordinator {
    pub fn crash(&mut self) {
        for h in self.handles.drain(..) {
            h.abort();
        }
    }
}

// ---------------------------------------------------------------------------
// clients

pub struct Client {
    pub net: Net,
    pub id: usize,
    conns: BTreeMap<String, Conn>,
}

#[derive(Clone, Debug)]
pub struct CallResult {
    pub reply: Result<RespVec, ()>,
    pub hops: usize,
    pub path: Vec<String>,
    pub inv_seq: u64,
    pub ret_seq: u64,
}

pub fn parse_moved(r: &RespVec) -> Option<(usize, String)> {
    if let Resp::Error(e) = r {
        let s = String::from_utf8_lossy(e);
        let mut it = s.split(' ');
        if it.next() == Some("MOVED") {
            let slot = it.next()?.parse::<usize>().ok()?;
            let addr = it.next()?.to_string();
            return Some((slot, addr));
        }
    }
    None
}

impl Client {
    pub fn new(net: &Net, id: usize) -> Self {
        Self { net: net.clone(), id, conns: BTreeMap::new() }
    }

    pub async fn call_one(&mut self, proxy: &str, cmd: &[Vec<u8>]) -> Result<RespVec, ()> {
        let src = format!("client:{}", self.id);
        if !self.conns.contains_key(proxy) {
            match self.net.connect(&src, proxy) {
                Ok(c) => {
                    self.conns.insert(proxy.to_string(), c);
                }
                Err(_) => return Err(()),
            }
        }
        let conn = self.conns.get(proxy).expect("conn").clone();
        let rx = conn.send(cmd.to_vec(), None);
        match tokio::time::timeout(Duration::from_secs(30), rx).await {
            Ok(Ok(Ok(r))) => Ok(r),
            _ => {
                self.conns.remove(proxy);
                Err(())
            }
        }
    }

    /// Issues `cmd` starting at `proxy`, following MOVED up to `max_hops` redirections.
    pub async fn call(&mut self, proxy: &str, cmd: &[Vec<u8>], max_hops: usize) -> CallResult {
        let inv_seq = self.net.event("client_invoke", self.id as u64, &crate::simnet::cmd_brief(cmd));
        let mut cur = proxy.to_string();
        let mut path = vec![cur.clone()];
        let mut hops = 0;
        loop {
            let r = self.call_one(&cur, cmd).await;
            match r {
                Ok(resp) => {
                    if let Some((_slot, addr)) = parse_moved(&resp) {
                        if hops < max_hops {
                            hops += 1;
                            cur = addr;
                            path.push(cur.clone());
                            continue;
                        }
                    }
                    let ret_seq = self.net.event("client_return", self.id as u64, "");
                    return CallResult { reply: Ok(resp), hops, path, inv_seq, ret_seq };
                }
                Err(()) => {
                    let ret_seq = self.net.event("client_error", self.id as u64, "");
                    return CallResult { reply: Err(()), hops, path, inv_seq, ret_seq };
                }
            }
        }
    }
}

pub fn bulk_cmd(parts: &[&[u8]]) -> Vec<Vec<u8>> {
    parts.iter().map(|p| p.to_vec()).collect()
}

pub fn resp_to_strings(r: &RespVec) -> Vec<String> {
    match r {
        Resp::Arr(Array::Arr(v)) => v.iter().flat_map(resp_to_strings).collect(),
        Resp::Bulk(BulkStr::Str(s)) | Resp::Simple(s) | Resp::Error(s) | Resp::Integer(s) => vec![String::from_utf8_lossy(s).to_string()],
        _ => vec![],
    }
}

/// The simulated runtime: single-threaded, paused clock.
pub fn run_sim<F: Future>(fut: F) -> F::Output {
    let rt = tokio::runtime::Builder::new_current_thread().enable_time().start_paused(true).build().expect("runtime");
    // every timestamp the broker or a proxy records reads the simulated clock, never the host's
    crate::broker::install_hooks();
    crate::broker::INJECTED_MAX_EPOCH.store(u64::MAX, std::sync::atomic::Ordering::SeqCst);
    let out = rt.block_on(async move {
        *crate::broker::SIM_CLOCK_START.lock() = Some(tokio::time::Instant::now());
        fut.await
    });
    // dropping the runtime cancels every remaining task
    drop(rt);
    out
}
