//! C17 — control-plane messages survive their wire encodings.
//!
//! (c) generated metadata round-trips through every encoding, compared with the
//!     harness's own independent decoder of the plain token format;
//! (d) message faults on the token list: every prefix truncation, every single
//!     token deletion, seeded garbage replacement -> must be rejected or decode
//!     to the same value;
//! (a)/(b) every SETCLUSTER / SETREPL / switch message that crosses SimNet in a
//!     live migration run is decoded and re-encoded both ways, and the
//!     descriptor a proxy reports for a finished migration is accepted by the
//!     broker (the migration gets committed).

use crate::broker::{proxy_addr, Cfg as BrokerCfg};
use crate::cluster::{bulk_cmd, run_sim, spawn_coordinator, spawn_proxy, spawn_redis_nodes, BrokerHolder, Client, ProxyParams};
use crate::framework::{Check, Meta, RunRecord, Tier, Violation};
use crate::rng::Rng;
use crate::sandbox::ChildLimits;
use crate::simnet::{cmd_to_resp, Net};
use serde_json::{json, Value};
use std::collections::{BTreeMap, HashMap};
use std::convert::TryFrom;
use std::time::Duration;
use undermoon::common::cluster::{ClusterName, MigrationMeta, MigrationTaskMeta, Range, RangeList, ReplPeer, SlotRange, SlotRangeTag};
use undermoon::common::config::ClusterConfig;
use undermoon::common::proto::{ClusterMapFlags, ProxyClusterMeta};
use undermoon::replication::replicator::{encode_repl_meta, MasterMeta, ReplicaMeta, ReplicatorMeta};

// ---------------------------------------------------------------------------
// canonical, comparable form (harness side)

#[derive(Clone, Debug, PartialEq, Eq, PartialOrd, Ord)]
struct CRange {
    ranges: Vec<(usize, usize)>,
    /// "", "MIGRATING", "IMPORTING"
    tag: String,
    mig: Option<(u64, String, String, String, String)>,
}

#[derive(Clone, Debug, PartialEq, Eq)]
struct CMeta {
    epoch: u64,
    force: bool,
    compress: bool,
    cluster: String,
    local: BTreeMap<String, Vec<CRange>>,
    peer: BTreeMap<String, Vec<CRange>>,
    config: BTreeMap<String, String>,
}

fn crange_of(sr: &SlotRange) -> CRange {
    let ranges = sr.get_range_list().get_ranges().iter().map(|r| (r.start(), r.end())).collect();
    let (tag, mig) = match &sr.tag {
        SlotRangeTag::None => (String::new(), None),
        SlotRangeTag::Migrating(m) => ("MIGRATING".to_string(), Some((m.epoch, m.src_proxy_address.clone(), m.src_node_address.clone(), m.dst_proxy_address.clone(), m.dst_node_address.clone()))),
        SlotRangeTag::Importing(m) => ("IMPORTING".to_string(), Some((m.epoch, m.src_proxy_address.clone(), m.src_node_address.clone(), m.dst_proxy_address.clone(), m.dst_node_address.clone()))),
    };
    CRange { ranges, tag, mig }
}

fn cmeta_of(m: &ProxyClusterMeta) -> CMeta {
    let conv = |h: &HashMap<String, Vec<SlotRange>>| -> BTreeMap<String, Vec<CRange>> {
        h.iter()
            .map(|(k, v)| {
                let mut r: Vec<CRange> = v.iter().map(crange_of).collect();
                r.sort();
                (k.clone(), r)
            })
            .filter(|(_, v)| !v.is_empty())
            .collect()
    };
    let f = m.get_flags();
    CMeta {
        epoch: m.get_epoch(),
        force: f.force,
        compress: f.compress,
        cluster: m.get_cluster_name().to_string(),
        local: conv(m.get_local()),
        peer: conv(m.get_peer()),
        config: m.get_config().to_str_map().into_iter().collect(),
    }
}

/// The harness's own decoder of the plain SETCLUSTER token list (after "UMCTL SETCLUSTER").
fn independent_decode(tokens: &[String]) -> Option<CMeta> {
    let mut i = 0usize;
    let next = |i: &mut usize| -> Option<&String> {
        let t = tokens.get(*i);
        *i += 1;
        t
    };
    if next(&mut i)? != "v2" {
        return None;
    }
    let epoch: u64 = next(&mut i)?.parse().ok()?;
    let flags = next(&mut i)?.clone();
    let cluster = next(&mut i)?.clone();
    let mut local: BTreeMap<String, Vec<CRange>> = BTreeMap::new();
    let mut peer: BTreeMap<String, Vec<CRange>> = BTreeMap::new();
    let mut config: BTreeMap<String, String> = ClusterConfig::default().to_str_map().into_iter().collect();
    let mut section = 0; // 0 local, 1 peer, 2 config
    while i < tokens.len() {
        let t = tokens[i].to_uppercase();
        if t == "PEER" {
            section = 1;
            i += 1;
            continue;
        }
        if t == "CONFIG" {
            section = 2;
            i += 1;
            continue;
        }
        if section == 2 {
            let k = next(&mut i)?.to_lowercase();
            let v = next(&mut i)?.clone();
            config.insert(k, v);
            continue;
        }
        let addr = next(&mut i)?.clone();
        let mut tag = String::new();
        let first = tokens.get(i)?.to_uppercase();
        if first == "MIGRATING" || first == "IMPORTING" {
            tag = first;
            i += 1;
        }
        let n: usize = next(&mut i)?.parse().ok()?;
        let mut ranges = vec![];
        for _ in 0..n {
            let r = next(&mut i)?;
            let (a, b) = r.split_once('-')?;
            ranges.push((a.parse().ok()?, b.parse().ok()?));
        }
        let mig = if tag.is_empty() {
            None
        } else {
            let e: u64 = next(&mut i)?.parse().ok()?;
            Some((e, next(&mut i)?.clone(), next(&mut i)?.clone(), next(&mut i)?.clone(), next(&mut i)?.clone()))
        };
        let cr = CRange { ranges, tag, mig };
        if section == 0 {
            local.entry(addr).or_default().push(cr);
        } else {
            peer.entry(addr).or_default().push(cr);
        }
    }
    for v in local.values_mut().chain(peer.values_mut()) {
        v.sort();
    }
    Some(CMeta { epoch, force: flags.split(',').any(|f| f == "FORCE"), compress: flags.split(',').any(|f| f == "COMPRESS"), cluster, local, peer, config })
}

fn parse_tokens(tokens: &[String]) -> Option<ProxyClusterMeta> {
    let mut it = tokens.iter().cloned().peekable();
    ProxyClusterMeta::parse(&mut it).ok().map(|x| x.0)
}

// ---------------------------------------------------------------------------
// generators

fn gen_range_list(rng: &mut Rng) -> RangeList {
    let n = rng.range(1, 4);
    let mut v = vec![];
    let mut start = rng.below(3000) as usize;
    for _ in 0..n {
        let len = *rng.pick(&[1usize, 1, 2, 10, 500, 3000]);
        let end = (start + len - 1).min(16383);
        v.push(Range(start, end));
        start = end + 2 + rng.below(800) as usize;
        if start > 16383 {
            break;
        }
    }
    RangeList::new(v)
}

fn gen_addr(rng: &mut Rng) -> String {
    format!("10.{}.{}.{}:{}", rng.below(3), rng.below(3), rng.below(250), 6000 + rng.below(10))
}

fn gen_slot_range(rng: &mut Rng) -> SlotRange {
    let range_list = gen_range_list(rng);
    let tag = match rng.below(5) {
        0 => SlotRangeTag::Migrating(MigrationMeta { epoch: rng.below(100_000), src_proxy_address: gen_addr(rng), src_node_address: gen_addr(rng), dst_proxy_address: gen_addr(rng), dst_node_address: gen_addr(rng) }),
        1 => SlotRangeTag::Importing(MigrationMeta { epoch: rng.below(100_000), src_proxy_address: gen_addr(rng), src_node_address: gen_addr(rng), dst_proxy_address: gen_addr(rng), dst_node_address: gen_addr(rng) }),
        _ => SlotRangeTag::None,
    };
    SlotRange { range_list, tag }
}

fn gen_node_map(rng: &mut Rng, max_nodes: u64) -> HashMap<String, Vec<SlotRange>> {
    let mut m = HashMap::new();
    for _ in 0..rng.below(max_nodes + 1) {
        let k = rng.range(1, 3);
        m.insert(gen_addr(rng), (0..k).map(|_| gen_slot_range(rng)).collect());
    }
    m
}

fn gen_meta(rng: &mut Rng) -> ProxyClusterMeta {
    gen_meta_sized(rng, 4)
}

/// `max_peers` > 100: a large cluster (hundreds to thousands of peer nodes), whose compressed form
/// exceeds the buffers of the gzip writer
fn gen_meta_sized(rng: &mut Rng, max_peers: u64) -> ProxyClusterMeta {
    let mut cfg = ClusterConfig::default();
    let _ = cfg.set_field("compression_strategy", *rng.pick(&["disabled", "set_get_only", "allow_all"]));
    let _ = cfg.set_field("migration_scan_count", &rng.range(1, 1000).to_string());
    let _ = cfg.set_field("migration_scan_interval", &rng.below(100_000).to_string());
    let _ = cfg.set_field("migration_max_blocking_time", &rng.below(100_000).to_string());
    let _ = cfg.set_field("migration_max_migration_time", &rng.below(100_000).to_string());
    let name = if rng.chance(1, 10) { String::new() } else { format!("cluster{}", rng.below(50)) };
    ProxyClusterMeta::new(
        rng.below(1_000_000),
        ClusterMapFlags { force: rng.chance(1, 4), compress: false },
        ClusterName::try_from(name.as_str()).unwrap_or_else(|_| ClusterName::empty()),
        gen_node_map(rng, 3),
        if max_peers > 100 {
            let mut m = HashMap::new();
            while (m.len() as u64) < max_peers {
                let k = rng.range(1, 2);
                m.insert(gen_addr(rng), (0..k).map(|_| gen_slot_range(rng)).collect());
            }
            m
        } else {
            gen_node_map(rng, max_peers)
        },
        cfg,
    )
}

fn gen_repl(rng: &mut Rng) -> ReplicatorMeta {
    let cn = || ClusterName::try_from("c0").unwrap_or_else(|_| ClusterName::empty());
    let mut masters = vec![];
    let mut replicas = vec![];
    for _ in 0..rng.below(3) {
        masters.push(MasterMeta { cluster_name: cn(), master_node_address: gen_addr(rng), replicas: (0..rng.below(3)).map(|_| ReplPeer { node_address: gen_addr(rng), proxy_address: gen_addr(rng) }).collect() });
    }
    for _ in 0..rng.below(3) {
        replicas.push(ReplicaMeta { cluster_name: cn(), replica_node_address: gen_addr(rng), masters: (0..rng.below(3)).map(|_| ReplPeer { node_address: gen_addr(rng), proxy_address: gen_addr(rng) }).collect() });
    }
    ReplicatorMeta { epoch: rng.below(100_000), flags: ClusterMapFlags { force: rng.chance(1, 4), compress: false }, masters, replicas }
}

fn repl_canon(m: &ReplicatorMeta) -> String {
    format!("{} {} {} {:?} {:?}", m.epoch, m.flags.force, m.flags.compress, m.masters, m.replicas)
}

fn parse_repl(tokens: &[String]) -> Option<ReplicatorMeta> {
    let mut cmd: Vec<Vec<u8>> = vec![b"UMCTL".to_vec(), b"SETREPL".to_vec()];
    cmd.extend(tokens.iter().map(|t| t.clone().into_bytes()));
    ReplicatorMeta::from_resp(&cmd_to_resp(&cmd)).ok()
}

// ---------------------------------------------------------------------------

pub struct WireCheck;

impl Check for WireCheck {
    fn id(&self) -> &'static str {
        "C17"
    }
    fn engine(&self) -> &'static str {
        "wire-sim (generated + in-flight messages of E2 runs)"
    }
    fn budget(&self, tier: Tier) -> (u64, Duration) {
        match tier {
            Tier::Quick => (1600, Duration::from_secs(40)),
            Tier::Thorough => (400_000, Duration::from_secs(1200)),
        }
    }
    fn gen_plan(&self, seed: u64, index: u64, _tier: Tier) -> Value {
        let live = index % 16 == 15;
        let mut ops: Vec<u64> = (0..if live { 1 } else { 24 }).collect();
        if !live && index % 4 == 1 {
            // one large cluster (600-3000 peer nodes)
            ops.push(1000 + index);
        }
        json!({"engine": "wire", "seed": seed, "live": live, "ops": ops})
    }
    fn execute(&self, plan: &Value, want_sample: bool) -> RunRecord {
        if plan["live"].as_bool().unwrap_or(false) {
            let plan = plan.clone();
            return run_sim(async move { run_live(&plan, want_sample).await });
        }
        run_generated(plan, want_sample)
    }
    fn limits(&self, _plan: Option<&Value>) -> ChildLimits {
        ChildLimits { wall_timeout: Duration::from_secs(120), rlimit_as: None, stack_bytes: 32 << 20 }
    }
    fn meta(&self) -> Meta {
        Meta {
            level: "exploration",
            rule: "15 of 16 runs: 24 generated values each (cluster metadata with 0-3 local and 0-4 peer nodes, 1-3 slot ranges per node, multi-range lists incl. single-slot ranges, all tag kinds, all config fields, empty cluster name; replication metadata; migration task descriptors) round-tripped through to_args/to_compressed_args/parse, encode_repl_meta/parse, into_strings().join(' ')/split(' '), compared with the harness's independent decoder, then subjected to message faults on the token list: every prefix truncation, every single-token deletion, 8 seeded garbage replacements. 1 of 16 runs: a live scale-out on the simulated cluster; every SETCLUSTER/SETREPL/switch message that crossed the network is decoded, re-encoded in the other encoding and compared, and the reported finished-migration descriptors must have been accepted by the broker. Non-trivial = >=1 value with a migration tag and a multi-range list (generated runs) or >=1 committed migration (live runs).",
            real: vec!["common::proto (ProxyClusterMeta::{parse,to_args,to_compressed_args}, NodeMap, ClusterConfigData)", "common::cluster (SlotRange, RangeList, MigrationMeta, MigrationTaskMeta string forms)", "replication::replicator::{encode_repl_meta, parse_repl_meta}", "migration::task::SwitchArg", "live runs: coordinator::sync/migration encoders, proxy executor decoders, broker commit_migration"],
            stubs: vec!["RESP framing below the token list (C15's subject)", "live runs: TCP, Redis, HTTP hop as in E2"],
            assumptions: vec!["corruption is modelled at token granularity (loss, deletion, replacement of whole tokens of the command array)"],
            fault_kinds: vec!["token_prefix_truncation", "token_deletion", "token_garbage_replacement"],
        }
    }
}

fn corruption_class(tokens: &[String], idx: usize) -> &'static str {
    let t = tokens[idx].to_uppercase();
    if t == "PEER" || t == "CONFIG" || t == "MIGRATING" || t == "IMPORTING" {
        "keyword"
    } else if t.contains(':') {
        "address"
    } else if t.contains('-') {
        "range"
    } else if t.chars().all(|c| c.is_ascii_digit()) {
        "number"
    } else {
        "other"
    }
}

fn run_generated(plan: &Value, want_sample: bool) -> RunRecord {
    let mut rec = RunRecord::default();
    let seed = plan["seed"].as_u64().unwrap_or(0);
    let mut tagged_multi = 0u64;
    let mut th = crate::rng::TraceHash::new();
    for op in plan["ops"].as_array().cloned().unwrap_or_default() {
        let mut rng = Rng::new(seed, "wire").sub("value", op.as_u64().unwrap_or(0));
        // ---- cluster metadata
        let huge = op.as_u64().unwrap_or(0) >= 1000;
        let meta = if huge {
            let n_peers = *rng.pick(&[600u64, 1500, 3000]);
            gen_meta_sized(&mut rng, n_peers)
        } else {
            gen_meta(&mut rng)
        };
        if huge {
            rec.probe("large_cluster_values");
        }
        let want = cmeta_of(&meta);
        if want.local.values().chain(want.peer.values()).flatten().any(|r| !r.tag.is_empty() && r.ranges.len() > 1) {
            tagged_multi += 1;
        }
        let plain = meta.to_args();
        th.add(plain.join(" ").as_bytes());
        match parse_tokens(&plain) {
            None => rec.violate(Violation::with_sig("C17", "own-encoding-rejected", "own-encoding-rejected:setcluster-plain".into(), format!("plain SETCLUSTER encoding of a generated value is rejected by the decoder: {}", plain.join(" ")))),
            Some(back) => {
                let got = cmeta_of(&back);
                if got != want {
                    rec.violate(Violation::with_sig("C17", "roundtrip-differs", "roundtrip-differs:setcluster-plain".into(), format!("plain encoding decodes to a different value: tokens `{}` -> {:?}, expected {:?}", plain.join(" "), got, want)));
                }
            }
        }
        match independent_decode(&plain) {
            Some(ind) => {
                if ind != want {
                    rec.violate(Violation::with_sig("C17", "encoder-disagrees-with-format", "encoder-disagrees-with-format:setcluster-plain".into(), format!("independent decoder reads `{}` as {:?}, the encoded value is {:?}", plain.join(" "), ind, want)));
                }
            }
            None => rec.violate(Violation::with_sig("C17", "encoder-disagrees-with-format", "encoder-output-not-in-format:setcluster-plain".into(), format!("the plain encoding `{}` does not follow the documented token format", plain.join(" ")))),
        }
        let cflags = ClusterMapFlags { force: want.force, compress: true };
        let cm = ProxyClusterMeta::new(meta.get_epoch(), cflags, meta.get_cluster_name().clone(), meta.get_local().clone(), meta.get_peer().clone(), meta.get_config().clone());
        match cm.to_compressed_args() {
            Ok(cargs) => match parse_tokens(&cargs) {
                None => rec.violate(Violation::with_sig("C17", "own-encoding-rejected", "own-encoding-rejected:setcluster-compressed".into(), "compressed SETCLUSTER encoding rejected by the decoder".to_string())),
                Some(back) => {
                    let mut got = cmeta_of(&back);
                    got.compress = false;
                    // the compressed form keeps slot-less nodes, the canonical form drops them: compare canonical forms
                    if got != want {
                        rec.violate(Violation::with_sig("C17", "roundtrip-differs", "roundtrip-differs:setcluster-compressed".into(), format!("compressed encoding decodes to a different value: {:?} vs {:?}", got, want)));
                    }
                }
            },
            Err(e) => rec.violate(Violation::new("C17", "compress-failed", format!("{:?}", e))),
        }
        if huge {
            // round trips only: the token-level faults are quadratic in the message size
            continue;
        }
        // ---- message faults on the plain token list
        let check_corrupt = |rec: &mut RunRecord, toks: &[String], kind: &str, class: &str, what: String| {
            if let Some(m) = parse_tokens(toks) {
                let got = cmeta_of(&m);
                if got != want {
                    rec.violate(Violation::with_sig("C17", "corrupted-message-accepted", { let _ = class; format!("corrupted-message-accepted:setcluster-plain:{}", kind) }, format!("{} of `{}` is accepted and decodes to different metadata (epoch {} -> {}, {} local / {} peer nodes -> {} / {})", what, plain.join(" "), want.epoch, got.epoch, want.local.len(), want.peer.len(), got.local.len(), got.peer.len())));
                }
            }
        };
        for k in 0..plain.len() {
            rec.fault("token_prefix_truncation");
            let class = if k < 4 { "header" } else { corruption_class(&plain, k) };
            check_corrupt(&mut rec, &plain[..k], "prefix-truncation", &format!("cut-before-{}", class), format!("the prefix of {} tokens", k));
        }
        for k in 0..plain.len() {
            rec.fault("token_deletion");
            let mut t = plain.clone();
            t.remove(k);
            let class = if k < 4 { "header" } else { corruption_class(&plain, k) };
            check_corrupt(&mut rec, &t, "token-deletion", class, format!("deleting token #{} `{}`", k, plain[k]));
        }
        for _ in 0..8 {
            if plain.is_empty() {
                break;
            }
            rec.fault("token_garbage_replacement");
            let k = rng.below(plain.len() as u64) as usize;
            let mut t = plain.clone();
            t[k] = (*rng.pick(&["", "x", "-", "0-", "99999999999999999999", "PEER", "1", "\u{0}"])).to_string();
            if t[k] == plain[k] {
                continue;
            }
            let class = if k < 4 { "header" } else { corruption_class(&plain, k) };
            check_corrupt(&mut rec, &t, "token-replacement", class, format!("replacing token #{} `{}` by `{}`", k, plain[k], t[k]));
        }
        // ---- the same message faults on the compressed form (4 tokens: version, epoch, flags, data)
        if let Ok(cargs) = cm.to_compressed_args() {
            let mut wantc = want.clone();
            wantc.compress = true;
            let mut variants: Vec<(String, Vec<String>)> = vec![];
            for k in 0..cargs.len() {
                variants.push(("prefix-truncation".to_string(), cargs[..k].to_vec()));
                let mut t = cargs.clone();
                t.remove(k);
                variants.push(("token-deletion".to_string(), t));
                let mut t = cargs.clone();
                t[k] = (*rng.pick(&["", "x", "1", "99999999999999999999", "COMPRESS", "H4sIAAAAAAAA/w=="])).to_string();
                if t[k] != cargs[k] {
                    variants.push(("token-replacement".to_string(), t));
                }
            }
            // flip one character inside the payload
            if let Some(data) = cargs.get(3) {
                if data.len() > 8 {
                    let pos = rng.below(data.len() as u64) as usize;
                    let mut b = data.clone().into_bytes();
                    b[pos] = if b[pos] == b'A' { b'B' } else { b'A' };
                    let mut t = cargs.clone();
                    t[3] = String::from_utf8_lossy(&b).to_string();
                    variants.push(("payload-corruption".to_string(), t));
                }
            }
            for (kind, toks) in variants {
                rec.fault("token_garbage_replacement");
                if let Some(m) = parse_tokens(&toks) {
                    let got = cmeta_of(&m);
                    if got != wantc {
                        rec.violate(Violation::with_sig("C17", "corrupted-message-accepted", format!("corrupted-message-accepted:setcluster-compressed:{}", kind), format!("{} of the compressed encoding `{} {} {} <{} bytes>` is accepted and decodes to different metadata (epoch {} -> {}, force {} -> {})", kind, cargs[0], cargs[1], cargs[2], cargs.get(3).map(|d| d.len()).unwrap_or(0), wantc.epoch, got.epoch, wantc.force, got.force)));
                    }
                }
            }
        }
        // ---- replication metadata
        let repl = gen_repl(&mut rng);
        let rt = encode_repl_meta(repl.clone());
        match parse_repl(&rt) {
            None => rec.violate(Violation::with_sig("C17", "own-encoding-rejected", "own-encoding-rejected:setrepl".into(), format!("SETREPL encoding rejected: {}", rt.join(" ")))),
            Some(back) => {
                if repl_canon(&back) != repl_canon(&repl) {
                    rec.violate(Violation::with_sig("C17", "roundtrip-differs", "roundtrip-differs:setrepl".into(), format!("SETREPL `{}` decodes to {} instead of {}", rt.join(" "), repl_canon(&back), repl_canon(&repl))));
                }
            }
        }
        let want_r = repl_canon(&repl);
        for k in 0..rt.len() {
            if let Some(m) = parse_repl(&rt[..k]) {
                if repl_canon(&m) != want_r {
                    rec.violate(Violation::with_sig("C17", "corrupted-message-accepted", "corrupted-message-accepted:setrepl:prefix-truncation".into(), format!("the prefix of {} tokens of `{}` is accepted as different replication metadata", k, rt.join(" "))));
                }
            }
            let mut t = rt.clone();
            t.remove(k);
            if let Some(m) = parse_repl(&t) {
                if repl_canon(&m) != want_r {
                    rec.violate(Violation::with_sig("C17", "corrupted-message-accepted", "corrupted-message-accepted:setrepl:token-deletion".into(), format!("deleting token #{} of `{}` is accepted as different replication metadata", k, rt.join(" "))));
                }
            }
        }
        // ---- migration task descriptor: the text form a proxy reports through INFOMGR
        let task = MigrationTaskMeta { cluster_name: ClusterName::try_from("c0").unwrap_or_else(|_| ClusterName::empty()), slot_range: loop {
            let s = gen_slot_range(&mut rng);
            if !matches!(s.tag, SlotRangeTag::None) {
                break s;
            }
        } };
        let text = task.clone().into_strings().join(" ");
        let mut it = text.split(' ').map(|s| s.to_string()).peekable();
        match MigrationTaskMeta::from_strings(&mut it) {
            Some(back) if back == task => {}
            other => rec.violate(Violation::with_sig("C17", "roundtrip-differs", "roundtrip-differs:migration-task-descriptor".into(), format!("descriptor `{}` decodes to {:?}", text, other))),
        }
        // JSON form (the commit request body)
        match serde_json::to_string(&task).ok().and_then(|s| serde_json::from_str::<MigrationTaskMeta>(&s).ok()) {
            Some(back) if back == task => {}
            other => rec.violate(Violation::with_sig("C17", "roundtrip-differs", "roundtrip-differs:migration-task-json".into(), format!("JSON form decodes to {:?}", other))),
        }
        rec.steps += 1;
    }
    rec.probe_n("values_with_tagged_multi_range_lists", tagged_multi);
    rec.nontrivial = tagged_multi > 0;
    rec.trace_hash = th.0;
    rec.sched_hash = th.0;
    rec.state_hash = th.0;
    if want_sample {
        let mut rng = Rng::new(seed, "wire").sub("value", 0);
        let m = gen_meta(&mut rng);
        rec.sample = Some(json!({"first_generated_setcluster_tokens": m.to_args().join(" ")}));
    }
    rec
}

async fn run_live(plan: &Value, want_sample: bool) -> RunRecord {
    let mut rec = RunRecord::default();
    let seed = plan["seed"].as_u64().unwrap_or(0);
    let mut rng = Rng::new(seed, "live");
    let net = Net::new(seed, 3);
    net.inner.lock().record_src_prefixes = vec!["coord".to_string(), "proxy".to_string()];
    let n_proxies = 4;
    let bcfg = BrokerCfg { ordered: false, migration_limit: rng.below(3), quorum: 1, ttl: 60, hosts: vec![1; n_proxies] };
    let holder = BrokerHolder::new(bcfg);
    for h in 0..n_proxies {
        spawn_redis_nodes(&net, h, 0, seed);
        let _ = spawn_proxy(&net, &proxy_addr(h, 0), &ProxyParams::default(), 1);
        holder.add_proxy(h, 0).await.expect("add_proxy");
    }
    holder.get().add_cluster("c0".to_string(), 4).await.expect("add_cluster");
    let compress = rng.chance(1, 2);
    let mut coord = spawn_coordinator(&net, &holder, 0, compress, true);
    tokio::time::sleep(Duration::from_millis(2500)).await;
    let mut cl = Client::new(&net, 1);
    for k in 0..30 {
        let key = format!("wk{}", k);
        let _ = cl.call(&proxy_addr(0, 0), &bulk_cmd(&[b"SET", key.as_bytes(), b"v"]), 4).await;
    }
    let _ = holder.get().auto_scale_up_nodes("c0".to_string(), 8).await;
    tokio::time::sleep(Duration::from_millis(1500)).await;
    let _ = holder.get().migrate_slots("c0".to_string()).await;
    tokio::time::sleep(Duration::from_millis(9000)).await;
    coord.crash();
    let calls = net.inner.lock().calls.clone();
    let mut n_msgs = 0u64;
    for c in calls.iter() {
        if c.cmd.len() < 3 || !c.cmd[0].eq_ignore_ascii_case(b"UMCTL") {
            continue;
        }
        let sub = String::from_utf8_lossy(&c.cmd[1]).to_uppercase();
        let tokens: Vec<String> = c.cmd.iter().skip(2).map(|b| String::from_utf8_lossy(b).to_string()).collect();
        match sub.as_str() {
            "SETCLUSTER" => {
                n_msgs += 1;
                let m = match parse_tokens(&tokens) {
                    Some(m) => m,
                    None => {
                        rec.violate(Violation::with_sig("C17", "in-flight-message-rejected", "in-flight-message-rejected:setcluster".into(), format!("a SETCLUSTER message produced by the coordinator is rejected by the decoder: {}", tokens.join(" ").chars().take(300).collect::<String>())));
                        continue;
                    }
                };
                let mut v = cmeta_of(&m);
                v.compress = false;
                // re-encode in the other encoding and compare
                let other = if m.get_flags().compress {
                    let pm = ProxyClusterMeta::new(m.get_epoch(), ClusterMapFlags { force: m.get_flags().force, compress: false }, m.get_cluster_name().clone(), m.get_local().clone(), m.get_peer().clone(), m.get_config().clone());
                    Some(pm.to_args())
                } else {
                    let pm = ProxyClusterMeta::new(m.get_epoch(), ClusterMapFlags { force: m.get_flags().force, compress: true }, m.get_cluster_name().clone(), m.get_local().clone(), m.get_peer().clone(), m.get_config().clone());
                    pm.to_compressed_args().ok()
                };
                if let Some(o) = other {
                    match parse_tokens(&o) {
                        Some(b) => {
                            let mut w = cmeta_of(&b);
                            w.compress = false;
                            if w != v {
                                rec.violate(Violation::with_sig("C17", "encodings-disagree", "encodings-disagree:setcluster".into(), format!("in-flight SETCLUSTER (epoch {}) re-encoded in the other encoding decodes differently: {:?} vs {:?}", v.epoch, w, v)));
                            }
                        }
                        None => rec.violate(Violation::with_sig("C17", "own-encoding-rejected", "own-encoding-rejected:setcluster-reencoded".into(), format!("in-flight SETCLUSTER (epoch {}) cannot be decoded after re-encoding", v.epoch))),
                    }
                }
                if !m.get_flags().compress {
                    if let Some(ind) = independent_decode(&tokens) {
                        if ind != v {
                            rec.violate(Violation::with_sig("C17", "encoder-disagrees-with-format", "encoder-disagrees-with-format:setcluster-plain".into(), format!("independent decoder reads the in-flight message as {:?}, /repo's as {:?}", ind, v)));
                        }
                    }
                }
            }
            "SETREPL" => {
                n_msgs += 1;
                match parse_repl(&tokens) {
                    Some(m) => {
                        let back = encode_repl_meta(m.clone());
                        if back != tokens {
                            rec.violate(Violation::with_sig("C17", "roundtrip-differs", "roundtrip-differs:setrepl-in-flight".into(), format!("in-flight SETREPL `{}` re-encodes as `{}`", tokens.join(" "), back.join(" "))));
                        }
                    }
                    None => rec.violate(Violation::with_sig("C17", "in-flight-message-rejected", "in-flight-message-rejected:setrepl".into(), format!("SETREPL message rejected: {}", tokens.join(" ")))),
                }
            }
            "PRECHECK" | "PRESWITCH" | "FINALSWITCH" => {
                n_msgs += 1;
                let mut it = tokens.iter().cloned().peekable();
                match undermoon::migration::task::SwitchArg::from_strings(&mut it) {
                    Some(a) => {
                        let back = a.into_strings();
                        if back != tokens {
                            rec.violate(Violation::with_sig("C17", "roundtrip-differs", "roundtrip-differs:switch-in-flight".into(), format!("in-flight {} `{}` re-encodes as `{}`", sub, tokens.join(" "), back.join(" "))));
                        }
                    }
                    None => rec.violate(Violation::with_sig("C17", "in-flight-message-rejected", "in-flight-message-rejected:switch".into(), format!("{} message rejected: {}", sub, tokens.join(" ")))),
                }
            }
            _ => {}
        }
    }
    // (b) the journey of the finished-migration descriptor
    let commits = holder.commits_ok.lock().len() as u64;
    let st = holder.get().get_all_data().await.expect("data");
    if st.clusters.values().any(|c| c.is_migrating()) {
        rec.violate(Violation::with_sig("C17", "descriptor-journey", "descriptor-journey:migration-never-committed".into(), format!("a fault-free scale-out did not get committed within 9 virtual seconds ({} commits): the descriptor reported by the proxies was not accepted by the broker", commits)));
    }
    rec.probe_n("in_flight_messages_checked", n_msgs);
    rec.probe_n("migrations_committed", commits);
    rec.nontrivial = commits > 0;
    {
        let g = net.inner.lock();
        rec.trace_hash = g.trace.0;
        rec.sched_hash = g.sched.0;
        rec.steps = g.seq;
    }
    rec.vtime_ms = net.now_ms();
    rec.state_hash = rec.trace_hash;
    if want_sample {
        rec.sample = Some(json!({"live": true, "messages": n_msgs, "commits": commits, "compressed": compress}));
    }
    rec
}
