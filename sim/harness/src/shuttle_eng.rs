//! Engine E4 — shuttle-sim: the real `TaskBlockingQueue` / `BlockingMap`
//! (proxy/blocking.rs, common/biatomic.rs) driven by shuttle-controlled threads
//! that switch at the H8 scheduling points placed before every shared-memory
//! access. One "run" (one forked child) explores `iters` schedules drawn from
//! the run seed; a failing schedule is returned in shuttle's encoded form.
//!
//! Serves C11.

use crate::framework::{Check, Meta, RunRecord, Tier, Violation};
use crate::rng::{mix64, Rng, TraceHash};
use crate::sandbox::ChildLimits;
use serde_json::{json, Value};
use std::collections::{BTreeMap, BTreeSet};
use std::sync::atomic::{AtomicBool, AtomicU64, AtomicUsize, Ordering};
use std::sync::{Arc, Mutex};
use std::time::Duration;
use undermoon::protocol::{Resp, RespPacket, RespVec};
use undermoon::proxy::backend::{CmdTask, SenderBackendError};
use undermoon::proxy::blocking::{
    BlockingCmdTaskSender, BlockingHint, BlockingHintTask, BlockingMap, CounterTask, TaskBlockingController,
    TaskBlockingQueueSenderFactory,
};
use undermoon::proxy::command::{CommandError, CommandResult};
use undermoon::proxy::sender::{CmdTaskSender, CmdTaskSenderFactory};
use undermoon::proxy::slowlog::TaskEvent;

static IN_SHUTTLE: AtomicBool = AtomicBool::new(false);
static EXEC_HASH: AtomicU64 = AtomicU64::new(0);
static SCHED_POINTS: AtomicU64 = AtomicU64::new(0);

fn sched_cb(name: &'static str) {
    if !IN_SHUTTLE.load(Ordering::SeqCst) {
        return;
    }
    let me = shuttle::current::get_current_task().map(usize::from).unwrap_or(99) as u64;
    let h = EXEC_HASH.load(Ordering::SeqCst);
    EXEC_HASH.store(mix64(h ^ (name.as_ptr() as u64).wrapping_mul(31) ^ (me << 56)), Ordering::SeqCst);
    SCHED_POINTS.fetch_add(1, Ordering::SeqCst);
    match name {
        // hook H11: the metadata locks of the proxy are try-lock loops under cfg(undermoon_verif); a
        // thread that finds the lock taken gives way (lowest priority under PCT) until it is free
        "lock::contended" => shuttle::thread::yield_now(),
        _ => shuttle::thread::sleep(Duration::from_secs(0)),
    }
}

static SOFT: Mutex<Vec<(String, String)>> = Mutex::new(Vec::new());

// ---------------------------------------------------------------------------
// stubs around the real queue

#[derive(Clone, Debug, PartialEq)]
enum Ev {
    InnerSend(u32),
    Redispatch(u32),
    RetryReturned(u32),
    ErrorReturned(u32),
    SendOk(u32),
    Barrier(u32),
    BeforeDrop(u32),
    BackendDone(u32),
}

struct Log {
    clock: AtomicU64,
    events: Mutex<Vec<(u64, Ev)>>,
}
impl Log {
    fn rec(&self, e: Ev) -> u64 {
        let t = self.clock.fetch_add(1, Ordering::SeqCst);
        self.events.lock().expect("log").push((t, e));
        t
    }
}

struct StubTask {
    id: u32,
}

impl CmdTask for StubTask {
    type Pkt = RespPacket;
    type TaskType = ();
    type Context = ();
    fn get_key(&self) -> Option<&[u8]> {
        None
    }
    fn get_slot(&self) -> Option<usize> {
        None
    }
    fn set_result(self, _result: CommandResult<Self::Pkt>) {}
    fn get_packet(&self) -> Self::Pkt {
        RespPacket::Data(Resp::Simple(b"x".to_vec()))
    }
    fn get_type(&self) -> Self::TaskType {}
    fn get_context(&self) -> Self::Context {}
    fn set_resp_result(self, _result: Result<RespVec, CommandError>) {}
    fn log_event(&mut self, _event: TaskEvent) {}
}

/// "source Redis": a task handed over here is executing at the source until the
/// backend thread drops it (= the reply arrived).
struct InnerSender {
    log: Arc<Log>,
    inflight: Arc<Mutex<Vec<CounterTask<StubTask>>>>,
}
impl CmdTaskSender for InnerSender {
    type Task = CounterTask<StubTask>;
    fn send(&self, cmd_task: Self::Task) -> Result<(), SenderBackendError<Self::Task>> {
        // CounterTask gives no access to the inner id without consuming it; keep ids aligned
        // through a side channel: the id is recorded by the caller wrapper below.
        let id = CURRENT_ID.with(|c| c.get());
        self.log.rec(Ev::InnerSend(id));
        self.inflight.lock().expect("inflight").push(cmd_task);
        Ok(())
    }
}
struct InnerFactory {
    log: Arc<Log>,
    inflight: Arc<Mutex<Vec<CounterTask<StubTask>>>>,
}
impl CmdTaskSenderFactory for InnerFactory {
    type Sender = InnerSender;
    fn create(&self, _address: String) -> Self::Sender {
        InnerSender {
            log: self.log.clone(),
            inflight: self.inflight.clone(),
        }
    }
}

struct Redispatch {
    log: Arc<Log>,
}
impl CmdTaskSender for Redispatch {
    type Task = StubTask;
    fn send(&self, cmd_task: Self::Task) -> Result<(), SenderBackendError<Self::Task>> {
        self.log.rec(Ev::Redispatch(cmd_task.id));
        Ok(())
    }
}
impl BlockingCmdTaskSender for Redispatch {}

shuttle::thread_local! {
    static CURRENT_ID: std::cell::Cell<u32> = std::cell::Cell::new(0);
}

fn fail(tag: &str, detail: String) -> ! {
    panic!("SIMV|{}|{}", tag, detail)
}

#[derive(Clone, Debug)]
struct Params {
    /// (sender index, hint kind)
    tasks: Vec<(usize, u8)>,
    senders: usize,
    blockers: usize,
    hold_yields: usize,
    /// the backend address had an earlier life: its queue was created and fully released before
    reuse_address: bool,
}

fn scenario(p: &Params) {
    let log = Arc::new(Log {
        clock: AtomicU64::new(1),
        events: Mutex::new(vec![]),
    });
    let inflight: Arc<Mutex<Vec<CounterTask<StubTask>>>> = Arc::new(Mutex::new(vec![]));
    let map = Arc::new(BlockingMap::new(
        InnerFactory {
            log: log.clone(),
            inflight: inflight.clone(),
        },
        Arc::new(Redispatch { log: log.clone() }),
    ));
    let factory = TaskBlockingQueueSenderFactory::new(map.clone());
    if p.reuse_address {
        // e.g. a proxy that left the cluster and came back: controller and senders of the new
        // life must still meet in one queue
        let old_ctrl = map.get_blocking_queue("source:6379".to_string());
        let old_sender = factory.create("source:6379".to_string());
        drop(old_sender);
        drop(old_ctrl);
    }
    let ctrl = map.get_blocking_queue("source:6379".to_string());
    let senders_done = Arc::new(AtomicUsize::new(0));
    let blockers_done = Arc::new(AtomicUsize::new(0));

    let mut handles = vec![];
    for s in 0..p.senders {
        let my: Vec<(u32, u8)> = p
            .tasks
            .iter()
            .enumerate()
            .filter(|(_, (si, _))| *si == s)
            .map(|(i, (_, k))| (i as u32 + 1, *k))
            .collect();
        let sender = factory.create("source:6379".to_string());
        let ctrl = ctrl.clone();
        let log = log.clone();
        let done = senders_done.clone();
        handles.push(shuttle::thread::spawn(move || {
            for (id, kind) in my {
                // what the migration layer does before sending (scan_task.rs): read the state, derive the hint
                let st = ctrl.get_blocking_state();
                let hint = match kind {
                    0 => BlockingHint::NotBlocking,
                    1 => {
                        if st.blocking {
                            BlockingHint::Blocking
                        } else {
                            BlockingHint::NotBlockingInMigration(st.term)
                        }
                    }
                    2 => BlockingHint::Blocking,
                    _ => BlockingHint::NotBlockingInMigration(st.term.saturating_sub(1)),
                };
                CURRENT_ID.with(|c| c.set(id));
                match sender.send(BlockingHintTask::new(StubTask { id }, hint)) {
                    Ok(()) => {
                        log.rec(Ev::SendOk(id));
                    }
                    Err(SenderBackendError::Retry(t)) => {
                        let t = t.into_inner();
                        log.rec(Ev::RetryReturned(t.id));
                    }
                    Err(_) => {
                        log.rec(Ev::ErrorReturned(id));
                    }
                }
            }
            done.fetch_add(1, Ordering::SeqCst);
        }));
    }
    for b in 0..p.blockers {
        let ctrl = ctrl.clone();
        let log = log.clone();
        let inflight = inflight.clone();
        let done = blockers_done.clone();
        let hold = p.hold_yields;
        handles.push(shuttle::thread::spawn(move || {
            let handle = ctrl.start_blocking();
            while !ctrl.blocking_done() {
                shuttle::thread::yield_now();
            }
            let n = inflight.lock().expect("inflight").len();
            log.rec(Ev::Barrier(b as u32));
            if n != 0 {
                fail("barrier-with-commands-in-flight", format!("blocker {} observed blocking_done() while {} commands were still executing at the source", b, n));
            }
            // PRESWITCH / waiting for the destination happens here
            for _ in 0..hold {
                shuttle::thread::yield_now();
            }
            log.rec(Ev::BeforeDrop(b as u32));
            drop(handle);
            done.fetch_add(1, Ordering::SeqCst);
        }));
    }
    // the "source Redis connection": replies arrive, tasks complete
    {
        let inflight = inflight.clone();
        let log = log.clone();
        let sd = senders_done.clone();
        let bd = blockers_done.clone();
        let (ns, nb) = (p.senders, p.blockers);
        handles.push(shuttle::thread::spawn(move || loop {
            let t = inflight.lock().expect("inflight").pop();
            match t {
                Some(task) => {
                    drop(task);
                    log.rec(Ev::BackendDone(0));
                }
                None => {
                    if sd.load(Ordering::SeqCst) == ns && bd.load(Ordering::SeqCst) == nb {
                        break;
                    }
                    shuttle::thread::yield_now();
                }
            }
        }));
    }
    for h in handles {
        if h.join().is_err() {
            fail("thread-panicked", "a scenario thread panicked".to_string());
        }
    }
    // drain what the last blocker released late
    loop {
        let t = inflight.lock().expect("inflight").pop();
        match t {
            Some(task) => drop(task),
            None => break,
        }
    }

    // ---- oracle over the recorded history
    let events = log.events.lock().expect("log").clone();
    let n_tasks = p.tasks.len() as u32;
    let mut windows: Vec<(u64, u64, u32)> = vec![];
    for b in 0..p.blockers as u32 {
        let t1 = events.iter().find(|(_, e)| *e == Ev::Barrier(b)).map(|x| x.0);
        let t2 = events.iter().find(|(_, e)| *e == Ev::BeforeDrop(b)).map(|x| x.0);
        if let (Some(a), Some(z)) = (t1, t2) {
            windows.push((a, z, b));
        }
    }
    for (t, e) in events.iter() {
        if let Ev::InnerSend(id) = e {
            for (a, z, b) in windows.iter() {
                if t > a && t < z {
                    fail(
                        "send-inside-barrier",
                        format!("command {} was handed to the source Redis at t={} inside blocker {}'s window ({}, {}) — after blocking_done() was observed and before blocking was lifted; history={:?}", id, t, b, a, z, events),
                    );
                }
            }
        }
    }
    for id in 1..=n_tasks {
        let inner = events.iter().filter(|(_, e)| *e == Ev::InnerSend(id)).count();
        let redis = events.iter().filter(|(_, e)| *e == Ev::Redispatch(id)).count();
        let retry = events.iter().filter(|(_, e)| *e == Ev::RetryReturned(id)).count();
        let err = events.iter().filter(|(_, e)| *e == Ev::ErrorReturned(id)).count();
        let total = inner + redis + retry + err;
        if total == 0 {
            fail("command-lost", format!("command {} was accepted (queued) but never handed on: neither sent to the source, nor re-dispatched, nor returned for retry; history={:?}", id, events));
        }
        if total > 1 {
            fail("command-duplicated", format!("command {} has {} terminal events (inner {}, redispatch {}, retry {}, error {}); history={:?}", id, total, inner, redis, retry, err, events));
        }
    }
    if !ctrl.blocking_done() {
        fail("counter-leak", "running command counter is not zero at quiescence".to_string());
    }
    if ctrl.get_blocking_state().blocking {
        fail("still-blocking", "blocking state still set after all handles were dropped".to_string());
    }
}

fn parse_params(plan: &Value) -> Params {
    let tasks: Vec<(usize, u8)> = plan["tasks"]
        .as_array()
        .map(|a| {
            a.iter()
                .map(|t| (t["s"].as_u64().unwrap_or(0) as usize, t["hint"].as_u64().unwrap_or(0) as u8))
                .collect()
        })
        .unwrap_or_default();
    let senders = tasks.iter().map(|t| t.0 + 1).max().unwrap_or(0);
    Params {
        tasks,
        senders,
        blockers: plan["blockers"].as_u64().unwrap_or(1) as usize,
        hold_yields: plan["hold_yields"].as_u64().unwrap_or(2) as usize,
        reuse_address: plan["reuse_address"].as_bool().unwrap_or(false),
    }
}


// ---------------------------------------------------------------------------
// C05 (concurrent part): several threads install metadata on one real MetaManager

use crate::simnet::{Net, SimClientFactory, SimConnFactory};
use std::collections::HashMap;
use std::convert::TryFrom;
use undermoon::common::cluster::{ClusterName, Range, RangeList, ReplPeer, SlotRange, SlotRangeTag};
use undermoon::common::config::ClusterConfig;
use undermoon::common::proto::{ClusterMapFlags, ProxyClusterMeta};
use undermoon::proxy::cluster::ClusterMetaError;
use undermoon::proxy::manager::{MetaManager, MetaMap};
use undermoon::replication::replicator::{MasterMeta, ReplicatorMeta};

type Mgr = MetaManager<SimClientFactory, SimConnFactory>;

fn new_manager() -> Mgr {
    let net = Net::new(1, 1);
    let addr = "10.0.0.1:7000";
    let config = Arc::new(crate::cluster::proxy_config(addr, &crate::cluster::ProxyParams::default()));
    let cf = Arc::new(SimClientFactory { net: net.clone(), src: "proxy:x".into(), timeout: Duration::from_secs(1) });
    let conn = Arc::new(SimConnFactory { net, src: "proxy:x".into() });
    let meta_map = Arc::new(arc_swap::ArcSwap::new(Arc::new(MetaMap::empty())));
    let reg = Arc::new(undermoon::common::track::TrackedFutureRegistry::default());
    MetaManager::new(config, cf, conn, meta_map, reg)
}

fn cluster_msg(epoch: u64) -> ProxyClusterMeta {
    let name = ClusterName::try_from("c0").unwrap_or_else(|_| ClusterName::empty());
    let split = 100 + (epoch as usize % 16000);
    let mut local = HashMap::new();
    local.insert("10.0.0.1:6000".to_string(), vec![SlotRange { range_list: RangeList::new(vec![Range(0, split)]), tag: SlotRangeTag::None }]);
    let mut peer = HashMap::new();
    peer.insert("10.0.1.1:7000".to_string(), vec![SlotRange { range_list: RangeList::new(vec![Range(split + 1, 16383)]), tag: SlotRangeTag::None }]);
    ProxyClusterMeta::new(epoch, ClusterMapFlags { force: false, compress: false }, name, local, peer, ClusterConfig::default())
}

/// odd epochs: node A master / node B replica; even epochs: the other way round. Every peer
/// address carries the epoch, so a report mixing two messages is recognisable.
fn repl_msg(epoch: u64) -> ReplicatorMeta {
    let name = ClusterName::try_from("c0").unwrap_or_else(|_| ClusterName::empty());
    let (m, r) = if epoch % 2 == 1 { ("10.0.0.1:6000", "10.0.0.1:6001") } else { ("10.0.0.1:6001", "10.0.0.1:6000") };
    ReplicatorMeta {
        epoch,
        flags: ClusterMapFlags { force: false, compress: false },
        masters: vec![MasterMeta { cluster_name: name.clone(), master_node_address: m.into(), replicas: vec![ReplPeer { node_address: format!("10.9.9.1:{}", 10_000 + epoch), proxy_address: "10.0.1.1:7000".into() }] }],
        replicas: vec![undermoon::replication::replicator::ReplicaMeta { cluster_name: name, replica_node_address: r.into(), masters: vec![ReplPeer { node_address: format!("10.9.8.1:{}", 10_000 + epoch), proxy_address: "10.0.1.1:7000".into() }] }],
    }
}

/// (role, node, peer) triples of a UMCTL INFOREPL style report
fn repl_report(mgr: &Mgr) -> Vec<(String, String, String)> {
    let mut out = vec![];
    if let undermoon::protocol::Resp::Arr(undermoon::protocol::Array::Arr(items)) = mgr.get_replication_info() {
        for it in items.iter() {
            let lines = crate::cluster::resp_to_strings(it);
            let (mut role, mut node, mut peer) = (String::new(), String::new(), String::new());
            for l in lines.iter() {
                let l = l.trim();
                if let Some(v) = l.strip_prefix("role:") {
                    role = v.to_string();
                } else if let Some(v) = l.strip_prefix("node_address:") {
                    node = v.to_string();
                } else if let Some(v) = l.strip_prefix("replica:").or_else(|| l.strip_prefix("master:")) {
                    peer = v.split('@').next().unwrap_or("").to_string();
                }
            }
            out.push((role, node, peer));
        }
    }
    out.sort();
    out
}

fn repl_report_of(epoch: u64) -> Vec<(String, String, String)> {
    let (m, r) = if epoch % 2 == 1 { ("10.0.0.1:6000", "10.0.0.1:6001") } else { ("10.0.0.1:6001", "10.0.0.1:6000") };
    let mut v = vec![("master".to_string(), m.to_string(), format!("10.9.9.1:{}", 10_000 + epoch)), ("replica".to_string(), r.to_string(), format!("10.9.8.1:{}", 10_000 + epoch))];
    v.sort();
    v
}

fn nodes_epoch(text: &str) -> u64 {
    text.lines().next().and_then(|l| l.split(' ').nth(6)).and_then(|e| e.parse().ok()).unwrap_or(0)
}

/// is there a total order of the calls, consistent with real time, in which
/// "OK iff strictly newer than the installed epoch" explains every reply?
fn explain(calls: &[(u64, u64, u64, bool)]) -> bool {
    explain_with(calls, false)
}

/// `tentative`: a rejection is also explained by any other call (accepted or not) with an epoch
/// >= the rejected one that was invoked before the rejected call returned — the replicator
/// manager publishes a call's epoch optimistically before it knows whether that call will win.
fn explain_with(calls: &[(u64, u64, u64, bool)], tentative: bool) -> bool {
    // (inv, ret, epoch, ok)
    let excused: Vec<bool> = calls
        .iter()
        .enumerate()
        .map(|(i, c)| tentative && !c.3 && calls.iter().enumerate().any(|(j, o)| j != i && o.2 >= c.2 && o.0 < c.1))
        .collect();
    fn rec(calls: &[(u64, u64, u64, bool)], excused: &[bool], done: u32, cur: u64) -> bool {
        if done.count_ones() as usize == calls.len() {
            return true;
        }
        let min_ret = calls.iter().enumerate().filter(|(i, _)| done & (1 << i) == 0).map(|(_, c)| c.1).min().unwrap_or(u64::MAX);
        for (i, c) in calls.iter().enumerate() {
            if done & (1 << i) != 0 || c.0 > min_ret {
                continue;
            }
            let would_ok = c.2 > cur;
            if would_ok != c.3 && !(excused[i] && !c.3) {
                continue;
            }
            if rec(calls, excused, done | (1 << i), if c.3 { c.2 } else { cur }) {
                return true;
            }
        }
        false
    }
    rec(calls, &excused, 0, 0)
}

#[derive(Clone, Debug)]
struct MetaParams {
    /// (thread, kind 0 = cluster / 1 = repl, epoch)
    msgs: Vec<(usize, u8, u64)>,
    threads: usize,
    reader_samples: usize,
}

fn meta_scenario(p: &MetaParams) {
    let mgr = Arc::new(new_manager());
    let clock = Arc::new(AtomicU64::new(1));
    let calls: Arc<Mutex<Vec<(u8, u64, u64, u64, bool)>>> = Arc::new(Mutex::new(vec![]));
    let samples: Arc<Mutex<Vec<(u64, u64)>>> = Arc::new(Mutex::new(vec![]));
    let repl_samples: Arc<Mutex<Vec<Vec<(String, String, String)>>>> = Arc::new(Mutex::new(vec![]));
    let mut handles = vec![];
    for t in 0..p.threads {
        let my: Vec<(u8, u64)> = p.msgs.iter().filter(|m| m.0 == t).map(|m| (m.1, m.2)).collect();
        let mgr = mgr.clone();
        let clock = clock.clone();
        let calls = calls.clone();
        handles.push(shuttle::thread::spawn(move || {
            for (kind, epoch) in my {
                let inv = clock.fetch_add(1, Ordering::SeqCst);
                let r = if kind == 0 { mgr.set_meta(cluster_msg(epoch)) } else { mgr.update_replicators(repl_msg(epoch)) };
                let ret = clock.fetch_add(1, Ordering::SeqCst);
                let ok = match r {
                    Ok(()) => true,
                    Err(ClusterMetaError::OldEpoch) => false,
                    Err(e) => fail("unexpected-reply", format!("{:?} for kind {} epoch {}", e, kind, epoch)),
                };
                calls.lock().expect("calls").push((kind, inv, ret, epoch, ok));
            }
        }));
    }
    {
        let mgr = mgr.clone();
        let samples = samples.clone();
        let repl_samples = repl_samples.clone();
        let n = p.reader_samples;
        handles.push(shuttle::thread::spawn(move || {
            for _ in 0..n {
                sched_cb("reader::before_epoch");
                let e = mgr.get_epoch();
                sched_cb("reader::between");
                let s = nodes_epoch(&mgr.gen_cluster_nodes());
                samples.lock().expect("samples").push((e, s));
                sched_cb("reader::before_repl");
                let rep = repl_report(&mgr);
                repl_samples.lock().expect("repl samples").push(rep);
            }
        }));
    }
    for h in handles {
        if h.join().is_err() {
            fail("thread-panicked", "a scenario thread panicked".to_string());
        }
    }
    let calls = calls.lock().expect("calls").clone();
    for kind in 0..2u8 {
        let cs: Vec<(u64, u64, u64, bool)> = calls.iter().filter(|c| c.0 == kind).map(|c| (c.1, c.2, c.3, c.4)).collect();
        if !explain(&cs) {
            if kind == 1 && explain_with(&cs, true) {
                // a recorded (known) deviation: note it and keep exploring, so that it cannot hide anything else
                SOFT.lock().expect("soft").push((
                    "repl-rejected-by-tentative-epoch".to_string(),
                    format!("a SETREPL was answered OLD_EPOCH although no accepted message with an epoch >= its own had been applied when it returned; it lost against the optimistically published epoch of a concurrent call that was itself rejected later: (invoke, return, epoch, ok) = {:?}", cs),
                ));
                continue;
            }
            fail(
                if kind == 0 { "cluster-replies-not-explainable" } else { "repl-replies-not-explainable" },
                format!("no order of the concurrent calls explains the replies under 'applied iff strictly newer than installed': (invoke, return, epoch, ok) = {:?}", cs),
            );
        }
        let max_ok = cs.iter().filter(|c| c.3).map(|c| c.2).max().unwrap_or(0);
        if kind == 0 {
            let e = mgr.get_epoch();
            let s = nodes_epoch(&mgr.gen_cluster_nodes());
            if e != max_ok || (max_ok > 0 && s != max_ok) {
                fail("final-cluster-meta-not-newest-accepted", format!("after all calls: reported epoch {}, routing metadata of epoch {}, newest accepted message {} (calls {:?})", e, s, max_ok, cs));
            }
        } else if max_ok > 0 {
            let report = repl_report(&mgr);
            if report != repl_report_of(max_ok) {
                fail("final-repl-meta-not-newest-accepted", format!("after all calls the replication roles are not those of the newest accepted message (epoch {}): {:?} (calls {:?})", max_ok, report, cs));
            }
        }
    }
    // the reader: every replication report is empty or exactly the role set of one message
    let repl_epochs: Vec<u64> = p.msgs.iter().filter(|m| m.1 == 1).map(|m| m.2).collect();
    for rep in repl_samples.lock().expect("repl samples").iter() {
        if rep.is_empty() || repl_epochs.iter().any(|e| &repl_report_of(*e) == rep) {
            continue;
        }
        fail("repl-report-of-no-message", format!("a reader saw replication roles that no SETREPL message contained: {:?} (messages of epochs {:?})", rep, repl_epochs));
    }
    // the reader: the reported epoch is never ahead of the installed routing metadata, and never decreases
    let ss = samples.lock().expect("samples").clone();
    let mut last = (0u64, 0u64);
    for (e, s) in ss.iter() {
        if e > s {
            fail("reported-epoch-ahead-of-metadata", format!("a reader saw reported epoch {} and then routing metadata of the older epoch {} (samples {:?})", e, s, ss));
        }
        if *e < last.0 || *s < last.1 {
            fail("epoch-decreased", format!("a reader saw (epoch, metadata epoch) go from {:?} to {:?}", last, (e, s)));
        }
        last = (*e, *s);
    }
}

fn parse_meta_params(plan: &Value) -> MetaParams {
    let msgs: Vec<(usize, u8, u64)> = plan["tasks"].as_array().map(|a| a.iter().map(|t| (t["s"].as_u64().unwrap_or(0) as usize, t["kind"].as_u64().unwrap_or(0) as u8, t["epoch"].as_u64().unwrap_or(1))).collect()).unwrap_or_default();
    let threads = msgs.iter().map(|m| m.0 + 1).max().unwrap_or(0);
    MetaParams { msgs, threads, reader_samples: plan["reader_samples"].as_u64().unwrap_or(3) as usize }
}

pub struct ShuttleCheck {
    pub prop: &'static str,
}

impl Check for ShuttleCheck {
    fn id(&self) -> &'static str {
        self.prop
    }
    fn engine(&self) -> &'static str {
        "E4 shuttle-sim"
    }
    fn budget(&self, tier: Tier) -> (u64, Duration) {
        match tier {
            Tier::Quick => (160, Duration::from_secs(40)),
            Tier::Thorough => (16_000, Duration::from_secs(900)),
        }
    }
    fn gen_plan(&self, seed: u64, index: u64, tier: Tier) -> Value {
        let mut rng = Rng::new(seed, "plan");
        if self.prop == "C05" {
            let threads = rng.range(2, 3) as usize;
            let mut tasks = vec![];
            for t in 0..threads {
                for _ in 0..rng.range(1, 3) {
                    tasks.push(json!({"s": t, "kind": rng.below(2), "epoch": rng.range(1, 5)}));
                }
            }
            return json!({
                "engine": "shuttle", "scenario": "meta", "seed": seed,
                "scheduler": if index % 4 == 3 { "pct" } else { "random" },
                "pct_depth": rng.range(2, 4),
                "iters": match tier { Tier::Quick => 200, Tier::Thorough => 500 },
                "reader_samples": rng.range(2, 8),
                "tasks": tasks,
            });
        }
        let senders = rng.range(2, 4) as usize;
        let mut tasks = vec![];
        for s in 0..senders {
            let n = rng.range(1, 3);
            for _ in 0..n {
                tasks.push(json!({"s": s, "hint": *rng.pick(&[0u8, 1, 1, 1, 2, 3])}));
            }
        }
        let pct = index % 4 == 3;
        let iters = match tier {
            Tier::Quick => 500,
            Tier::Thorough => 1000,
        };
        json!({
            "engine": "shuttle", "scenario": "barrier", "seed": seed,
            "scheduler": if pct { "pct" } else { "random" },
            "pct_depth": rng.range(2, 4),
            "iters": iters,
            "blockers": *rng.pick(&[1u64, 1, 1, 2]),
            "hold_yields": rng.range(0, 4),
            "reuse_address": rng.chance(1, 3),
            "tasks": tasks,
        })
    }
    fn execute(&self, plan: &Value, want_sample: bool) -> RunRecord {
        undermoon::common::verif::register_sched_point(sched_cb);
        if std::env::var("VERIF_DEBUG").is_err() {
            // shuttle's panic hook prints the failing schedule to stderr; it is also persisted to a file
            unsafe {
                let fd = libc::open(b"/dev/null\0".as_ptr() as *const libc::c_char, libc::O_WRONLY);
                if fd >= 0 {
                    libc::dup2(fd, 2);
                    libc::close(fd);
                }
            }
        }
        let mut rec = RunRecord::default();
        let p = parse_params(plan);
        let is_meta = plan["scenario"].as_str() == Some("meta");
        let mp = parse_meta_params(plan);
        // MetaManager spawns tokio tasks (backend connections, replicators): a runtime must be entered.
        // The tasks are never polled: only the synchronous install path is under test.
        let rt = tokio::runtime::Builder::new_current_thread().enable_time().start_paused(true).build().expect("runtime");
        let _enter = rt.enter();
        let seed = plan["seed"].as_u64().unwrap_or(0);
        let iters = plan["iters"].as_u64().unwrap_or(100) as usize;
        let dir = std::path::PathBuf::from(std::env::var("VERIF_TMP").unwrap_or_else(|_| "/verif/sim/target/tmp".to_string())).join(format!("shuttle-{}", std::process::id()));
        let _ = std::fs::create_dir_all(&dir);
        let mut cfg = shuttle::Config::new();
        cfg.stack_size = 256 << 10;
        cfg.failure_persistence = shuttle::FailurePersistence::File(Some(dir.clone()));
        cfg.max_steps = shuttle::MaxSteps::FailAfter(200_000);
        cfg.silence_warnings = true;
        let distinct: Arc<Mutex<BTreeSet<u64>>> = Arc::new(Mutex::new(BTreeSet::new()));
        let d2 = distinct.clone();
        let p2 = p.clone();
        let body = move || {
            EXEC_HASH.store(0, Ordering::SeqCst);
            if is_meta {
                meta_scenario(&mp);
            } else {
                scenario(&p2);
            }
            d2.lock().expect("distinct").insert(EXEC_HASH.load(Ordering::SeqCst));
        };
        IN_SHUTTLE.store(true, Ordering::SeqCst);
        let pinned = plan.get("schedule").and_then(|s| s.as_str()).map(|s| s.to_string());
        let res = std::panic::catch_unwind(std::panic::AssertUnwindSafe(|| match (&pinned, plan["scheduler"].as_str()) {
            (Some(s), _) => {
                let sched = shuttle::scheduler::ReplayScheduler::new_from_encoded(s);
                shuttle::Runner::new(sched, cfg).run(body)
            }
            (None, Some("pct")) => {
                let sched = shuttle::scheduler::PctScheduler::new_from_seed(seed, plan["pct_depth"].as_u64().unwrap_or(3) as usize, iters);
                shuttle::Runner::new(sched, cfg).run(body)
            }
            _ => {
                let sched = shuttle::scheduler::RandomScheduler::new_from_seed(seed, iters);
                shuttle::Runner::new(sched, cfg).run(body)
            }
        }));
        IN_SHUTTLE.store(false, Ordering::SeqCst);
        let d = distinct.lock().expect("distinct").clone();
        rec.probe_n("schedules_executed", d.len().max(0) as u64);
        rec.probe_n("sched_points_hit", SCHED_POINTS.load(Ordering::SeqCst));
        let mut th = TraceHash::new();
        for h in d.iter() {
            th.add_u64(*h);
        }
        rec.sched_hash = th.0;
        rec.state_hash = th.0;
        rec.trace_hash = th.0;
        rec.steps = res.as_ref().map(|n| *n as u64).unwrap_or(0);
        rec.probe_n("distinct_schedules", d.len() as u64);
        rec.nontrivial = d.len() > 1 || pinned.is_some();
        {
            let soft = std::mem::take(&mut *SOFT.lock().expect("soft"));
            if let Some((tag, detail)) = soft.first() {
                rec.violate(Violation::new(self.prop, tag, format!("{} (seen in {} of the explored schedules)", short(detail, 1200), soft.len())));
            }
        }
        if res.is_err() {
            let msgs = crate::sandbox::take_panics();
            let first = msgs.iter().find(|m| m.starts_with("SIMV|")).cloned().unwrap_or_else(|| msgs.join(" | "));
            let mut parts = first.splitn(3, '|');
            let _ = parts.next();
            let tag = parts.next().unwrap_or("shuttle-panic").to_string();
            let detail = parts.next().unwrap_or(&first).to_string();
            // the persisted schedule
            let mut schedule = String::new();
            if let Ok(rd) = std::fs::read_dir(&dir) {
                for e in rd.flatten() {
                    if let Ok(s) = std::fs::read_to_string(e.path()) {
                        schedule = s.trim().to_string();
                    }
                }
            }
            let tag = if first.starts_with("SIMV|") { tag } else { "shuttle-panic".to_string() };
            let mut pinned_plan = plan.clone();
            if let Some(o) = pinned_plan.as_object_mut() {
                o.insert("schedule".to_string(), json!(schedule));
            }
            rec.violate(Violation::new(self.prop, &tag, format!("{} [schedule: {}]", short(&detail, 1500), short(&schedule, 300))));
            rec.sample = Some(json!({"pinned_plan": pinned_plan, "failing_schedule": schedule}));
            rec.trace_hash = mix64(th.0 ^ schedule.len() as u64);
        } else if want_sample {
            rec.sample = Some(json!({"plan": plan, "schedules_executed": iters, "distinct_schedules": d.len()}));
        }
        let _ = std::fs::remove_dir_all(&dir);
        rec
    }
    fn limits(&self, _plan: Option<&Value>) -> ChildLimits {
        ChildLimits {
            wall_timeout: Duration::from_secs(300),
            rlimit_as: None,
            stack_bytes: 16 << 20,
        }
    }
    fn shrink_arrays(&self) -> Vec<&'static str> {
        vec!["/tasks"]
    }
    fn minimise_budget(&self, _tier: Tier) -> u64 {
        40
    }
    fn meta(&self) -> Meta {
        if self.prop == "C05" {
            return Meta {
                level: "exploration",
                rule: "one run = one forked child exploring 200 (quick) / 500 schedules (shuttle random, every 4th PCT) of 2-3 threads installing 1-3 SETCLUSTER/SETREPL messages each (epochs 1-5, colliding on purpose) on one real MetaManager, plus a reader thread sampling reported epoch then routing metadata; threads switch at the H9 points (before the metadata lock, between meta_map.store and epoch.store, around the optimistic updating_epoch of the replicator manager). Oracle: the replies are explainable by some real-time-consistent order under 'applied iff strictly newer'; the final routing metadata / replication roles are those of the newest accepted message; a reader never sees the reported epoch ahead of the installed metadata, and never sees either decrease.",
                real: vec!["proxy::manager::MetaManager::set_meta", "replication::manager::ReplicatorManager::update_replicators", "proxy::cluster::ClusterBackendMap, migration::manager (map construction)"],
                stubs: vec!["tokio tasks spawned by the install path are never polled (no backend traffic)", "the parking_lot metadata lock is shadowed by a cooperative lock at the H9 points so that a waiting thread yields instead of parking the OS thread"],
                assumptions: vec!["sequential consistency (all accesses SeqCst; shuttle runs one thread at a time)", "interleavings at the granularity of the H9 scheduling points"],
                fault_kinds: vec![],
            };
        }
        Meta {
            level: "exploration",
            rule: "one run = one forked child exploring `iters` schedules (shuttle RandomScheduler, every 4th run PCT depth 2-4) of 2-4 sender threads x 1-3 commands (all blocking hints, hints derived from the observed state as scan_task.rs does) + 1-2 blocker threads (start_blocking, poll blocking_done, hold, drop) + a backend thread completing in-flight commands; threads switch at the H8 points before every atomic access. distinct = distinct hashes of the per-execution sequence (thread, sched point); a run is non-trivial if it executed >1 distinct schedule.",
            real: vec!["proxy::blocking::{BlockingMap, TaskBlockingQueue, TaskBlockingQueueSender, BlockingHandle, CounterTask}", "common::biatomic::BiAtomicU32", "crossbeam_channel queue"],
            stubs: vec!["inner sender (source Redis connection): records and holds the CounterTask until the backend thread drops it", "re-dispatch sender: records only", "CmdTask: stub carrying an id"],
            assumptions: vec!["sequential consistency: shuttle runs one thread at a time and all accesses in blocking.rs are SeqCst; weak-memory reorderings are out of scope", "interleavings at the granularity of the H8 scheduling points (every atomic access, queue operation and sender call)"],
            fault_kinds: vec![],
        }
    }
    fn extra_evidence(&self, records: &[RunRecord]) -> Option<Value> {
        let total: u64 = records.iter().map(|r| r.probes.get("distinct_schedules").cloned().unwrap_or(0)).sum();
        let mut by: BTreeMap<String, u64> = BTreeMap::new();
        for r in records.iter() {
            *by.entry("children".to_string()).or_insert(0) += 1;
        }
        let executed: u64 = records.iter().map(|r| r.steps).sum();
        Some(json!({"evaluations": executed, "distinct_nontrivial": total, "children": records.len(), "schedules_note": "evaluations = schedules executed over all children; distinct_nontrivial = distinct (thread, sched point) sequences, counted per child and summed (children use different scenarios)"}))
    }
}

fn short(s: &str, n: usize) -> String {
    if s.len() > n {
        let cut: String = s.chars().take(n).collect();
        format!("{}…", cut)
    } else {
        s.to_string()
    }
}
