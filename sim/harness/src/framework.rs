//! Shared layer: run records, batch driver (forked workers, one forked child
//! per run), plan minimisation, replay files, known findings, evidence.

use crate::rng::{hash3, stream_id};
use crate::sandbox::{run_in_child, ChildLimits, ExitKind, SharedCounter};
use serde_derive::{Deserialize, Serialize};
use serde_json::{json, Value};
use std::collections::{BTreeMap, BTreeSet};
use std::io::Write;
use std::time::{Duration, Instant};

#[derive(Clone, Copy, Debug, PartialEq, Eq)]
pub enum Tier {
    Quick,
    Thorough,
}
impl Tier {
    pub fn name(&self) -> &'static str {
        match self {
            Tier::Quick => "quick",
            Tier::Thorough => "thorough",
        }
    }
}

#[derive(Clone, Debug, Serialize, Deserialize, PartialEq)]
pub struct Violation {
    pub prop: String,
    /// oracle class; minimisation keeps a candidate iff the same tag fires
    pub tag: String,
    /// specific signature used to match known findings (defaults to tag)
    pub sig: String,
    pub detail: String,
}

impl Violation {
    pub fn new(prop: &str, tag: &str, detail: String) -> Self {
        Self {
            prop: prop.to_string(),
            tag: tag.to_string(),
            sig: tag.to_string(),
            detail,
        }
    }
    pub fn with_sig(prop: &str, tag: &str, sig: String, detail: String) -> Self {
        Self {
            prop: prop.to_string(),
            tag: tag.to_string(),
            sig,
            detail,
        }
    }
}

#[derive(Clone, Debug, Default, Serialize, Deserialize)]
pub struct RunRecord {
    pub seed: u64,
    pub index: u64,
    pub violations: Vec<Violation>,
    /// hash of the full event trace (determinism / replay equality)
    pub trace_hash: u64,
    /// hash of the schedule-relevant events only (distinct interleavings)
    pub sched_hash: u64,
    /// hash of the end state (distinct states)
    pub state_hash: u64,
    /// did this run reach the property's trigger (rule in evidence)
    pub nontrivial: bool,
    pub faults: BTreeMap<String, u64>,
    pub probes: BTreeMap<String, u64>,
    pub vtime_ms: u64,
    pub steps: u64,
    pub sample: Option<Value>,
    pub harness_error: Option<String>,
    pub wall_us: u64,
}

impl RunRecord {
    pub fn fault(&mut self, kind: &str) {
        *self.faults.entry(kind.to_string()).or_insert(0) += 1;
    }
    pub fn probe(&mut self, name: &str) {
        *self.probes.entry(name.to_string()).or_insert(0) += 1;
    }
    pub fn probe_n(&mut self, name: &str, n: u64) {
        *self.probes.entry(name.to_string()).or_insert(0) += n;
    }
    pub fn violate(&mut self, v: Violation) {
        // keep the first occurrence per (prop, tag, sig); cap the list
        if self.violations.len() < 16
            && !self
                .violations
                .iter()
                .any(|x| x.prop == v.prop && x.tag == v.tag && x.sig == v.sig)
        {
            self.violations.push(v);
        }
    }
}

pub struct Meta {
    pub level: &'static str,
    pub rule: &'static str,
    pub real: Vec<&'static str>,
    pub stubs: Vec<&'static str>,
    pub assumptions: Vec<&'static str>,
    pub fault_kinds: Vec<&'static str>,
}

pub trait Check: Sync {
    fn id(&self) -> &'static str;
    fn engine(&self) -> &'static str;
    /// (number of runs, wall-clock cap for the batch)
    fn budget(&self, tier: Tier) -> (u64, Duration);
    /// called in the child
    fn gen_plan(&self, seed: u64, index: u64, tier: Tier) -> Value;
    /// called in the child
    fn execute(&self, plan: &Value, want_sample: bool) -> RunRecord;
    fn limits(&self, _plan: Option<&Value>) -> ChildLimits {
        ChildLimits::default()
    }
    /// JSON pointers of arrays inside the plan that the minimiser may thin out
    fn shrink_arrays(&self) -> Vec<&'static str> {
        vec!["/ops"]
    }
    /// How an abnormal child end (signal, abort, timeout, escaped panic) is read.
    /// Default: harness error.
    fn abnormal_exit(&self, _exit: &ExitKind, _output: &str) -> Option<Violation> {
        None
    }
    fn meta(&self) -> Meta;
    /// extra, check-specific evidence computed from all records
    fn extra_evidence(&self, _records: &[RunRecord]) -> Option<Value> {
        None
    }
    fn minimise_budget(&self, tier: Tier) -> u64 {
        match tier {
            Tier::Quick => 150,
            Tier::Thorough => 600,
        }
    }
}

pub fn run_seed(batch_seed: u64, index: u64) -> u64 {
    hash3(batch_seed, stream_id("run"), index)
}

fn outcome_to_record(
    check: &dyn Check,
    seed: u64,
    index: u64,
    exit: ExitKind,
    output: Vec<u8>,
    wall: Duration,
) -> RunRecord {
    let text = String::from_utf8_lossy(&output).to_string();
    let mut rec = match exit {
        ExitKind::Exited(0) => match serde_json::from_slice::<RunRecord>(&output) {
            Ok(r) => r,
            Err(e) => RunRecord {
                harness_error: Some(format!("child output not a record: {} ({} bytes)", e, output.len())),
                ..Default::default()
            },
        },
        ref other => {
            let mut r = RunRecord::default();
            let short: String = text.chars().take(600).collect();
            match check.abnormal_exit(other, &short) {
                Some(v) => r.violations.push(v),
                None => {
                    r.harness_error = Some(format!("child ended {:?}: {}", other, short));
                }
            }
            r
        }
    };
    rec.seed = seed;
    rec.index = index;
    rec.wall_us = wall.as_micros() as u64;
    rec
}

/// One run from a seed: plan generation and execution both happen in the child.
pub fn run_one_seed(check: &'static dyn Check, seed: u64, index: u64, tier: Tier, want_sample: bool) -> RunRecord {
    let limits = check.limits(None);
    let body = move || {
        let plan = check.gen_plan(seed, index, tier);
        let mut rec = check.execute(&plan, want_sample);
        if want_sample && rec.sample.is_none() {
            rec.sample = Some(plan.clone());
        }
        if !rec.violations.is_empty() {
            // hand the plan back for minimisation
            rec.sample = Some(json!({"plan": plan, "observed": rec.sample}));
        }
        serde_json::to_vec(&rec).unwrap_or_default()
    };
    let mut out = run_in_child(seed, &limits, body);
    if matches!(out.exit, ExitKind::TimedOut) {
        // The watchdog is the only wall-clock dependent verdict in the harness. A frozen or
        // overloaded host (snapshot of the VM, disk stall) makes it fire on a healthy run, so a
        // run only counts as timed out when it does so twice in a row.
        out = run_in_child(seed, &limits, body);
    }
    outcome_to_record(check, seed, index, out.exit, out.output, out.wall)
}

/// One run from an explicit plan (replay, minimisation).
pub fn run_one_plan(check: &'static dyn Check, seed: u64, plan: &Value) -> RunRecord {
    let limits = check.limits(Some(plan));
    let plan2 = plan.clone();
    let body = move || {
        let rec = check.execute(&plan2, true);
        serde_json::to_vec(&rec).unwrap_or_default()
    };
    let mut out = run_in_child(seed, &limits, body.clone());
    if matches!(out.exit, ExitKind::TimedOut) {
        out = run_in_child(seed, &limits, body);
    }
    outcome_to_record(check, seed, 0, out.exit, out.output, out.wall)
}

pub fn plan_of_seed(check: &'static dyn Check, seed: u64, index: u64, tier: Tier) -> Option<Value> {
    let out = run_in_child(seed, &ChildLimits::default(), move || {
        serde_json::to_vec(&check.gen_plan(seed, index, tier)).unwrap_or_default()
    });
    serde_json::from_slice(&out.output).ok()
}

pub struct BatchResult {
    pub records: Vec<RunRecord>,
    pub wall: Duration,
    pub planned: u64,
}

fn tmp_dir() -> std::path::PathBuf {
    let base = std::env::var("VERIF_TMP").unwrap_or_else(|_| "/verif/sim/target/tmp".to_string());
    let p = std::path::PathBuf::from(base).join(format!("batch-{}", std::process::id()));
    let _ = std::fs::create_dir_all(&p);
    p
}

pub fn workers() -> usize {
    std::env::var("VERIF_WORKERS")
        .ok()
        .and_then(|s| s.parse().ok())
        .unwrap_or_else(|| {
            std::thread::available_parallelism()
                .map(|n| n.get())
                .unwrap_or(4)
        })
}

/// Runs indices 0..n (until the wall cap) over forked worker processes.
pub fn run_batch(
    check: &'static dyn Check,
    batch_seed: u64,
    tier: Tier,
    n: u64,
    cap: Duration,
    samples_wanted: u64,
) -> BatchResult {
    let start = Instant::now();
    let w = workers().max(1);
    let counter = SharedCounter::new(2);
    let dir = tmp_dir();
    let mut pids = vec![];
    for wi in 0..w {
        let pid = unsafe { libc::fork() };
        if pid < 0 {
            panic!("fork worker failed");
        }
        if pid == 0 {
            // worker: single-threaded, forks one child per run
            let path = dir.join(format!("w{}.jsonl", wi));
            let mut f = std::io::BufWriter::new(std::fs::File::create(&path).expect("worker file"));
            loop {
                if start.elapsed() >= cap {
                    break;
                }
                let idx = counter
                    .slot(0)
                    .fetch_add(1, std::sync::atomic::Ordering::SeqCst);
                if idx >= n {
                    break;
                }
                let seed = run_seed(batch_seed, idx);
                let rec = run_one_seed(check, seed, idx, tier, idx < samples_wanted);
                let _ = serde_json::to_writer(&mut f, &rec);
                let _ = f.write_all(b"\n");
            }
            let _ = f.flush();
            unsafe { libc::_exit(0) };
        }
        pids.push(pid);
    }
    for pid in pids {
        let mut st = 0;
        unsafe {
            libc::waitpid(pid, &mut st, 0);
        }
    }
    let mut records = vec![];
    for wi in 0..w {
        let path = dir.join(format!("w{}.jsonl", wi));
        if let Ok(text) = std::fs::read_to_string(&path) {
            for line in text.lines() {
                if let Ok(r) = serde_json::from_str::<RunRecord>(line) {
                    records.push(r);
                }
            }
        }
    }
    let _ = std::fs::remove_dir_all(&dir);
    records.sort_by_key(|r| r.index);
    BatchResult {
        records,
        wall: start.elapsed(),
        planned: n,
    }
}

// ---------------------------------------------------------------------------
// Minimisation: delta debugging over the plan's arrays.

fn same_violation(rec: &RunRecord, prop: &str, tag: &str, sig: &str) -> Option<Violation> {
    rec.violations
        .iter()
        .find(|v| v.prop == prop && v.tag == tag && (sig.is_empty() || v.sig == sig))
        .cloned()
}

pub fn minimise(
    check: &'static dyn Check,
    seed: u64,
    plan: Value,
    prop: &str,
    tag: &str,
    sig: &str,
    budget: u64,
) -> (Value, u64) {
    let mut best = plan;
    let mut used = 0u64;
    let arrays = check.shrink_arrays();
    let mut progress = true;
    while progress && used < budget {
        progress = false;
        for ptr in arrays.iter() {
            let len = best.pointer(ptr).and_then(|a| a.as_array()).map(|a| a.len()).unwrap_or(0);
            if len == 0 {
                continue;
            }
            let mut chunk = (len + 1) / 2;
            while chunk >= 1 && used < budget {
                let mut i = 0usize;
                let mut removed_any = false;
                loop {
                    let cur_len = best.pointer(ptr).and_then(|a| a.as_array()).map(|a| a.len()).unwrap_or(0);
                    if i >= cur_len || used >= budget {
                        break;
                    }
                    let mut cand = best.clone();
                    if let Some(arr) = cand.pointer_mut(ptr).and_then(|a| a.as_array_mut()) {
                        let end = (i + chunk).min(arr.len());
                        arr.drain(i..end);
                    }
                    used += 1;
                    let rec = run_one_plan(check, seed, &cand);
                    if rec.harness_error.is_none() && same_violation(&rec, prop, tag, sig).is_some() {
                        best = cand;
                        removed_any = true;
                        progress = true;
                    } else {
                        i += chunk;
                    }
                }
                if chunk == 1 {
                    break;
                }
                chunk = if removed_any { chunk } else { chunk / 2 };
                if removed_any && chunk > 1 {
                    chunk /= 2;
                }
            }
        }
    }
    (best, used)
}

// ---------------------------------------------------------------------------
// Known findings

#[derive(Clone, Debug, Serialize, Deserialize)]
pub struct Finding {
    pub property: String,
    pub signature: String,
    pub status: String, // "known" | "fixed"
    #[serde(default)]
    pub commit: Option<String>,
    pub description: String,
}

pub fn load_findings() -> Vec<Finding> {
    let path = std::env::var("VERIF_FINDINGS").unwrap_or_else(|_| "/verif/known_findings.json".to_string());
    match std::fs::read_to_string(&path) {
        Ok(s) => serde_json::from_str::<Value>(&s)
            .ok()
            .and_then(|v| v.get("findings").cloned())
            .and_then(|v| serde_json::from_value(v).ok())
            .unwrap_or_default(),
        Err(_) => vec![],
    }
}

// ---------------------------------------------------------------------------
// Driver

pub fn verif_root() -> String {
    std::env::var("VERIF_ROOT").unwrap_or_else(|_| "/verif".to_string())
}

pub struct CheckOutcome {
    pub exit_code: i32,
}

pub fn drive_check(check: &'static dyn Check, tier: Tier, batch_seed: u64) -> CheckOutcome {
    let start = Instant::now();
    let (n_default, cap_default) = check.budget(tier);
    let n = std::env::var("VERIF_RUNS").ok().and_then(|s| s.parse().ok()).unwrap_or(n_default);
    let cap = std::env::var("VERIF_CAP_S")
        .ok()
        .and_then(|s| s.parse().ok())
        .map(Duration::from_secs)
        .unwrap_or(cap_default);
    println!(
        "check={} engine={} tier={} VERIF_SEED={} runs={} cap_s={} workers={}",
        check.id(),
        check.engine(),
        tier.name(),
        batch_seed,
        n,
        cap.as_secs(),
        workers()
    );
    let batch = run_batch(check, batch_seed, tier, n, cap, 3);
    let records = &batch.records;

    let mut harness_errors: Vec<&RunRecord> = records.iter().filter(|r| r.harness_error.is_some()).collect();
    harness_errors.truncate(5);

    // group violations by (prop, tag, sig): first failing run per group
    let mut groups: BTreeMap<(String, String, String), &RunRecord> = BTreeMap::new();
    for r in records.iter() {
        for v in r.violations.iter() {
            groups.entry((v.prop.clone(), v.tag.clone(), v.sig.clone())).or_insert(r);
        }
    }
    let findings = load_findings();
    if std::env::var("VERIF_LIST_SIGS").is_ok() {
        for ((p, t, sg), r) in groups.iter() {
            println!("SIG {} {} {} first-seed={}", p, t, sg, r.seed);
        }
    }
    let mut exit_code = 0;
    let mut reported = 0u64;
    let mut known_lines = BTreeSet::new();
    let replay_dir = format!("{}/replays", verif_root());
    let _ = std::fs::create_dir_all(&replay_dir);
    let max_reports = 4;
    let mut violation_summaries = vec![];
    for ((prop, tag, sig), rec) in groups.iter() {
        let is_known = findings
            .iter()
            .any(|f| f.status == "known" && &f.property == prop && &f.signature == sig);
        if is_known {
            let d = rec.violations.iter().find(|v| &v.sig == sig).map(|v| v.detail.clone()).unwrap_or_default();
            let short: String = d.chars().take(200).collect();
            known_lines.insert(format!("KNOWN-FINDING: property={} {} :: {}", prop, sig, short));
            continue;
        }
        if reported >= max_reports {
            continue;
        }
        // Obtain the plan
        let plan = rec
            .sample
            .as_ref()
            .and_then(|s| s.get("plan"))
            .cloned()
            .or_else(|| plan_of_seed(check, rec.seed, rec.index, tier));
        let plan = match plan {
            Some(p) => p,
            None => {
                println!("HARNESS-ERROR: cannot regenerate plan for seed {}", rec.seed);
                exit_code = exit_code.max(2);
                continue;
            }
        };
        // Reproduce first (exactness), then minimise.
        let r0 = run_one_plan(check, rec.seed, &plan);
        if same_violation(&r0, prop, tag, sig).is_none() {
            println!(
                "HARNESS-ERROR: violation {} {} of seed {} did not reproduce from its plan ({:?})",
                prop, tag, rec.seed, r0.harness_error
            );
            exit_code = exit_code.max(2);
            continue;
        }
        let (min_plan, used) = minimise(check, rec.seed, plan.clone(), prop, tag, sig, check.minimise_budget(tier));
        let ra = run_one_plan(check, rec.seed, &min_plan);
        let rb = run_one_plan(check, rec.seed, &min_plan);
        let va = same_violation(&ra, prop, tag, sig);
        let vb = same_violation(&rb, prop, tag, sig);
        if va.is_none() || vb.is_none() || ra.trace_hash != rb.trace_hash {
            println!(
                "HARNESS-ERROR: minimised plan for {} {} seed {} is not reproducible (trace {} vs {})",
                prop, tag, rec.seed, ra.trace_hash, rb.trace_hash
            );
            exit_code = exit_code.max(2);
            continue;
        }
        let v = va.unwrap_or_else(|| Violation::new(prop, tag, String::new()));
        // a minimised plan may expose a different specific signature; re-check known findings
        let is_known_after = findings
            .iter()
            .any(|f| f.status == "known" && f.property == v.prop && f.signature == v.sig);
        if is_known_after {
            let short: String = v.detail.chars().take(200).collect();
            known_lines.insert(format!("KNOWN-FINDING: property={} {} :: {}", prop, v.sig, short));
            continue;
        }
        let fname = format!(
            "{}/{}-{}-{}.json",
            replay_dir,
            check.id(),
            sanitize(tag),
            rec.seed
        );
        let replay = json!({
            "property": prop,
            "check": check.id(),
            "engine": check.engine(),
            "seed": rec.seed,
            "index": rec.index,
            "tier": tier.name(),
            "oracle_tag": tag,
            "signature": v.sig,
            "detail": v.detail,
            "trace_hash": ra.trace_hash,
            "minimise_runs": used,
            "original_plan_len": plan_size(check, &plan),
            "minimised_plan_len": plan_size(check, &min_plan),
            "plan": min_plan,
            "observed": ra.sample,
        });
        if let Ok(mut f) = std::fs::File::create(&fname) {
            let _ = f.write_all(serde_json::to_string_pretty(&replay).unwrap_or_default().as_bytes());
        }
        let short: String = v.detail.chars().take(400).collect();
        println!("violation detail: [{}] {}", v.sig, short);
        println!("VIOLATION property={} replay={}", prop, fname);
        violation_summaries.push(json!({"tag": tag, "sig": v.sig, "seed": rec.seed, "replay": fname}));
        reported += 1;
        exit_code = exit_code.max(1);
        let _ = sig;
    }
    for l in known_lines.iter() {
        println!("{}", l);
    }
    for r in harness_errors.iter() {
        println!(
            "HARNESS-ERROR: seed {} index {}: {}",
            r.seed,
            r.index,
            r.harness_error.clone().unwrap_or_default()
        );
        exit_code = exit_code.max(2);
    }
    if records.is_empty() {
        println!("HARNESS-ERROR: no runs executed");
        exit_code = 2;
    }
    write_evidence(check, tier, batch_seed, &batch, start.elapsed(), reported, &violation_summaries, known_lines.len() as u64);
    println!(
        "done check={} runs={} violations={} known={} wall_s={:.1} exit={}",
        check.id(),
        records.len(),
        reported,
        known_lines.len(),
        start.elapsed().as_secs_f64(),
        exit_code
    );
    CheckOutcome { exit_code }
}

fn plan_size(check: &dyn Check, plan: &Value) -> u64 {
    check
        .shrink_arrays()
        .iter()
        .map(|p| plan.pointer(p).and_then(|a| a.as_array()).map(|a| a.len() as u64).unwrap_or(0))
        .sum()
}

fn sanitize(s: &str) -> String {
    s.chars()
        .map(|c| if c.is_ascii_alphanumeric() || c == '-' || c == '_' { c } else { '_' })
        .take(60)
        .collect()
}

fn write_evidence(
    check: &dyn Check,
    tier: Tier,
    batch_seed: u64,
    batch: &BatchResult,
    wall: Duration,
    violations: u64,
    violation_summaries: &[Value],
    known: u64,
) {
    let recs = &batch.records;
    let meta = check.meta();
    let mut faults: BTreeMap<String, u64> = BTreeMap::new();
    let mut probes: BTreeMap<String, u64> = BTreeMap::new();
    let mut scheds = BTreeSet::new();
    let mut states = BTreeSet::new();
    let mut nontrivial_states = BTreeSet::new();
    let mut vtime = 0u64;
    let mut steps = 0u64;
    let mut nontrivial_runs = 0u64;
    let mut samples = vec![];
    for r in recs.iter() {
        for (k, v) in r.faults.iter() {
            *faults.entry(k.clone()).or_insert(0) += v;
        }
        for (k, v) in r.probes.iter() {
            *probes.entry(k.clone()).or_insert(0) += v;
        }
        scheds.insert(r.sched_hash);
        states.insert(r.state_hash);
        if r.nontrivial {
            nontrivial_runs += 1;
            nontrivial_states.insert((r.state_hash, r.sched_hash));
        }
        vtime += r.vtime_ms;
        steps += r.steps;
        if samples.len() < 2 {
            if let Some(s) = r.sample.as_ref() {
                if r.violations.is_empty() {
                    samples.push(truncate_value(s, 6000));
                }
            }
        }
    }
    if samples.is_empty() {
        samples.push(json!({"note": "no sample captured", "first_seed": recs.first().map(|r| r.seed)}));
    }
    for k in meta.fault_kinds.iter() {
        faults.entry(k.to_string()).or_insert(0);
    }
    let zero_probes: Vec<&String> = probes.iter().filter(|(_, v)| **v == 0).map(|(k, _)| k).collect();
    let wall_s = wall.as_secs_f64();
    let runs = recs.len() as u64;
    let mut coverage = json!({
        "evaluations": runs,
        "distinct_nontrivial": nontrivial_states.len(),
        "rule": meta.rule,
        "samples": samples,
        "planned_runs": batch.planned,
        "nontrivial_runs": nontrivial_runs,
        "distinct_interleavings": scheds.len(),
        "distinct_end_states": states.len(),
        "simulated_time_s": (vtime as f64) / 1000.0,
        "steps": steps,
        "runs_per_hour": if wall_s > 0.0 { (runs as f64 / batch.wall.as_secs_f64().max(0.001) * 3600.0) as u64 } else { 0 },
        "fault_kinds_fired": faults,
        "probes": probes,
        "probes_stuck_at_zero": zero_probes,
        "real_components": meta.real,
        "stubbed_components": meta.stubs,
        "known_findings_printed": known,
        "violation_reports": violation_summaries,
        "exhaustive": false,
    });
    if let Some(extra) = check.extra_evidence(recs) {
        if let (Some(c), Some(e)) = (coverage.as_object_mut(), extra.as_object()) {
            for (k, v) in e.iter() {
                c.insert(k.clone(), v.clone());
            }
        }
    }
    let ev = json!({
        "property_id": check.id(),
        "tier": tier.name(),
        "seed": batch_seed,
        "level": meta.level,
        "coverage": coverage,
        "assumptions": meta.assumptions,
        "wall_s": wall_s,
        "violations": violations,
    });
    let dir = format!("{}/evidence", verif_root());
    let _ = std::fs::create_dir_all(&dir);
    let path = format!("{}/{}.json", dir, check.id());
    if let Ok(mut f) = std::fs::File::create(&path) {
        let _ = f.write_all(serde_json::to_string_pretty(&ev).unwrap_or_default().as_bytes());
    }
}

pub fn truncate_value(v: &Value, max: usize) -> Value {
    let s = v.to_string();
    if s.len() <= max {
        v.clone()
    } else {
        let cut: String = s.chars().take(max).collect();
        json!({"truncated_json": cut, "full_len": s.len()})
    }
}

/// `simrun replay <file>`: re-executes a replay file twice in fresh children.
pub fn replay_file(check: &'static dyn Check, file: &Value) -> i32 {
    let seed = file.get("seed").and_then(|s| s.as_u64()).unwrap_or(0);
    let plan = file.get("plan").cloned().unwrap_or(Value::Null);
    let prop = file.get("property").and_then(|s| s.as_str()).unwrap_or("");
    let tag = file.get("oracle_tag").and_then(|s| s.as_str()).unwrap_or("");
    let sig = file.get("signature").and_then(|s| s.as_str()).unwrap_or("");
    let want_hash = file.get("trace_hash").and_then(|s| s.as_u64());
    let ra = run_one_plan(check, seed, &plan);
    let rb = run_one_plan(check, seed, &plan);
    println!("replay seed={} trace_hash={} / {} (recorded {:?})", seed, ra.trace_hash, rb.trace_hash, want_hash);
    if let Some(e) = ra.harness_error.as_ref() {
        println!("HARNESS-ERROR: {}", e);
        return 2;
    }
    match same_violation(&ra, prop, tag, sig) {
        Some(v) => {
            println!("reproduced: [{}] {}", v.sig, v.detail);
            if ra.trace_hash != rb.trace_hash {
                println!("HARNESS-ERROR: replay not deterministic");
                return 2;
            }
            if let Some(h) = want_hash {
                if h != ra.trace_hash {
                    println!("note: trace hash differs from the recorded one (code under test changed?)");
                }
            }
            println!("VIOLATION property={} replay=<this file>", prop);
            1
        }
        None => {
            println!("not reproduced: no violation with tag {} (violations: {:?})", tag, ra.violations);
            0
        }
    }
}

// ---------------------------------------------------------------------------
// A check made of several engines/modes (e.g. C13 = E1 crash-point enumeration + E2 live recovery).

pub struct CompositeCheck {
    pub prop: &'static str,
    pub engine: &'static str,
    /// (part, weight): run index i goes to the part owning i % sum(weights)
    pub parts: Vec<(&'static dyn Check, u64)>,
    pub quick: (u64, u64),
    pub thorough: (u64, u64),
    pub level: &'static str,
}

impl CompositeCheck {
    fn part_of_index(&self, index: u64) -> usize {
        let total: u64 = self.parts.iter().map(|p| p.1).sum::<u64>().max(1);
        let mut r = index % total;
        for (i, (_, w)) in self.parts.iter().enumerate() {
            if r < *w {
                return i;
            }
            r -= *w;
        }
        0
    }
    fn part_of_plan(&self, plan: &Value) -> usize {
        plan.get("part").and_then(|p| p.as_u64()).unwrap_or(0) as usize % self.parts.len().max(1)
    }
}

impl Check for CompositeCheck {
    fn id(&self) -> &'static str {
        self.prop
    }
    fn engine(&self) -> &'static str {
        self.engine
    }
    fn budget(&self, tier: Tier) -> (u64, Duration) {
        match tier {
            Tier::Quick => (self.quick.0, Duration::from_secs(self.quick.1)),
            Tier::Thorough => (self.thorough.0, Duration::from_secs(self.thorough.1)),
        }
    }
    fn gen_plan(&self, seed: u64, index: u64, tier: Tier) -> Value {
        let i = self.part_of_index(index);
        let mut plan = self.parts[i].0.gen_plan(seed, index, tier);
        if let Some(o) = plan.as_object_mut() {
            o.insert("part".to_string(), json!(i));
        }
        plan
    }
    fn execute(&self, plan: &Value, want_sample: bool) -> RunRecord {
        let i = self.part_of_plan(plan);
        let mut rec = self.parts[i].0.execute(plan, want_sample);
        rec.probe(&format!("runs_of_part_{}_{}", i, self.parts[i].0.engine()));
        rec
    }
    fn limits(&self, plan: Option<&Value>) -> ChildLimits {
        match plan {
            Some(p) => self.parts[self.part_of_plan(p)].0.limits(plan),
            None => {
                // the most generous of the parts
                let mut l = ChildLimits::default();
                for (p, _) in self.parts.iter() {
                    let pl = p.limits(None);
                    if pl.wall_timeout > l.wall_timeout {
                        l.wall_timeout = pl.wall_timeout;
                    }
                    if pl.stack_bytes > l.stack_bytes {
                        l.stack_bytes = pl.stack_bytes;
                    }
                }
                l
            }
        }
    }
    fn shrink_arrays(&self) -> Vec<&'static str> {
        let mut v = vec![];
        for (p, _) in self.parts.iter() {
            for a in p.shrink_arrays() {
                if !v.contains(&a) {
                    v.push(a);
                }
            }
        }
        v
    }
    fn abnormal_exit(&self, exit: &ExitKind, output: &str) -> Option<Violation> {
        for (p, _) in self.parts.iter() {
            if let Some(v) = p.abnormal_exit(exit, output) {
                return Some(v);
            }
        }
        None
    }
    fn meta(&self) -> Meta {
        let mut m = self.parts[0].0.meta();
        m.level = self.level;
        for (p, _) in self.parts.iter().skip(1) {
            let pm = p.meta();
            for x in pm.real {
                if !m.real.contains(&x) {
                    m.real.push(x);
                }
            }
            for x in pm.stubs {
                if !m.stubs.contains(&x) {
                    m.stubs.push(x);
                }
            }
            for x in pm.assumptions {
                if !m.assumptions.contains(&x) {
                    m.assumptions.push(x);
                }
            }
            for x in pm.fault_kinds {
                if !m.fault_kinds.contains(&x) {
                    m.fault_kinds.push(x);
                }
            }
        }
        m
    }
    fn extra_evidence(&self, records: &[RunRecord]) -> Option<Value> {
        let rules: Vec<String> = self.parts.iter().map(|(p, w)| format!("[part weight {} — {}] {}", w, p.engine(), p.meta().rule)).collect();
        let _ = records;
        Some(json!({"rule": rules.join("  ||  ")}))
    }
    fn minimise_budget(&self, tier: Tier) -> u64 {
        self.parts.iter().map(|(p, _)| p.minimise_budget(tier)).max().unwrap_or(100)
    }
}
