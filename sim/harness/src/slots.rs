//! Independent reference for Redis Cluster key -> slot mapping
//! (CRC16-XMODEM of the hash tag, modulo 16384). Does not call into /repo.

pub fn crc16_xmodem(data: &[u8]) -> u16 {
    let mut crc: u16 = 0;
    for b in data {
        crc ^= (*b as u16) << 8;
        for _ in 0..8 {
            if crc & 0x8000 != 0 {
                crc = (crc << 1) ^ 0x1021;
            } else {
                crc <<= 1;
            }
        }
    }
    crc
}

/// The hash tag rule of the Redis Cluster specification: the substring between the
/// first '{' and the first '}' after it, if non-empty; otherwise the whole key.
pub fn hash_tag(key: &[u8]) -> &[u8] {
    if let Some(open) = key.iter().position(|b| *b == b'{') {
        if let Some(close_rel) = key[open + 1..].iter().position(|b| *b == b'}') {
            if close_rel > 0 {
                return &key[open + 1..open + 1 + close_rel];
            }
        }
    }
    key
}

pub fn slot_of(key: &[u8]) -> usize {
    (crc16_xmodem(hash_tag(key)) as usize) % 16384
}

/// CRC16-ARC (reflected 0xA001, init 0): the hash the migration code uses for its
/// per-key lock table. Only used by plan generators to construct keys whose locks collide.
pub fn crc16_arc(data: &[u8]) -> u16 {
    let mut crc: u16 = 0;
    for b in data {
        crc ^= *b as u16;
        for _ in 0..8 {
            if crc & 1 != 0 {
                crc = (crc >> 1) ^ 0xA001;
            } else {
                crc >>= 1;
            }
        }
    }
    crc
}

/// A short hash tag whose slot is `slot` (table built once per process by enumeration).
pub fn tag_for_slot(slot: usize) -> Vec<u8> {
    static TABLE: std::sync::OnceLock<Vec<Vec<u8>>> = std::sync::OnceLock::new();
    let t = TABLE.get_or_init(|| {
        let mut table: Vec<Vec<u8>> = vec![vec![]; 16384];
        let mut missing = 16384usize;
        let mut i = 0u64;
        while missing > 0 {
            let cand = format!("b{}", i).into_bytes();
            let s = (crc16_xmodem(&cand) as usize) % 16384;
            if table[s].is_empty() {
                table[s] = cand;
                missing -= 1;
            }
            i += 1;
        }
        table
    });
    t[slot % 16384].clone()
}

pub fn lock_slot_of(key: &[u8]) -> usize {
    (crc16_arc(key) as usize) % 16384
}

#[cfg(test)]
mod tests {
    use super::*;
    #[test]
    fn known_vectors() {
        assert_eq!(crc16_xmodem(b"123456789"), 0x31C3);
        assert_eq!(slot_of(b"foo"), 12182);
        assert_eq!(slot_of(b"{user1000}.following"), slot_of(b"{user1000}.followers"));
        assert_eq!(slot_of(b"foo{}{bar}"), slot_of(b"foo{}{bar}"));
    }
}
