//! Fork-per-run isolation, `getrandom` interposition, panic capture.
//!
//! Every simulated run executes in a freshly forked child, on a freshly
//! spawned thread (fresh thread-locals: std hash keys, tokio and futures-util
//! PRNG state), with the libc `getrandom` symbol answered from the run seed.
//! Process-global counters used for seeding (futures-util `select!`, tokio)
//! are only ever advanced inside children, never in the forking parent.

use crate::rng::hash3;
use std::io::Read;
use std::os::unix::io::FromRawFd;
use std::sync::atomic::{AtomicU64, Ordering};
use std::sync::Mutex;
use std::time::{Duration, Instant};

static GR_SEED: AtomicU64 = AtomicU64::new(0x5eed_5eed_5eed_5eed);
static GR_CTR: AtomicU64 = AtomicU64::new(0);
pub static GR_CALLS: AtomicU64 = AtomicU64::new(0);

/// Interposes libc's `getrandom` (std looks it up as a weak symbol; libc
/// callers bind to it directly). All "entropy" in the process is a pure
/// function of the run seed.
#[no_mangle]
pub unsafe extern "C" fn getrandom(
    buf: *mut libc::c_void,
    buflen: libc::size_t,
    _flags: libc::c_uint,
) -> libc::ssize_t {
    let seed = GR_SEED.load(Ordering::SeqCst);
    GR_CALLS.fetch_add(1, Ordering::SeqCst);
    let p = buf as *mut u8;
    let mut i = 0usize;
    while i < buflen {
        let c = GR_CTR.fetch_add(1, Ordering::SeqCst);
        let v = hash3(seed, 0x6765_7472_616e_646f, c).to_le_bytes();
        for b in v.iter() {
            if i < buflen {
                *p.add(i) = *b;
                i += 1;
            }
        }
    }
    buflen as libc::ssize_t
}

pub fn set_entropy_seed(seed: u64) {
    GR_SEED.store(seed, Ordering::SeqCst);
    GR_CTR.store(0, Ordering::SeqCst);
}

static PANICS: Mutex<Vec<String>> = Mutex::new(Vec::new());

pub fn install_panic_recorder() {
    std::panic::set_hook(Box::new(|info| {
        let msg = if let Some(s) = info.payload().downcast_ref::<&str>() {
            s.to_string()
        } else if let Some(s) = info.payload().downcast_ref::<String>() {
            s.clone()
        } else {
            "<non-string panic>".to_string()
        };
        let loc = info
            .location()
            .map(|l| format!("{}:{}", l.file(), l.line()))
            .unwrap_or_default();
        if let Ok(mut p) = PANICS.lock() {
            p.push(format!("{} @ {}", msg, loc));
        }
    }));
}

pub fn take_panics() -> Vec<String> {
    PANICS.lock().map(|mut p| std::mem::take(&mut *p)).unwrap_or_default()
}

#[derive(Debug, Clone, PartialEq)]
pub enum ExitKind {
    Exited(i32),
    Signaled(i32),
    TimedOut,
}

pub struct ChildOutcome {
    pub exit: ExitKind,
    pub output: Vec<u8>,
    pub wall: Duration,
}

pub struct ChildLimits {
    pub wall_timeout: Duration,
    pub rlimit_as: Option<u64>,
    pub stack_bytes: usize,
}

impl Default for ChildLimits {
    fn default() -> Self {
        Self {
            wall_timeout: Duration::from_secs(120),
            rlimit_as: None,
            stack_bytes: 8 << 20,
        }
    }
}

/// Runs `f` in a forked child on a fresh thread. `f` returns the bytes to hand
/// back to the parent. A panic escaping `f` is turned into exit code 101 with
/// the recorded panic messages as output.
pub fn run_in_child<F>(seed: u64, limits: &ChildLimits, f: F) -> ChildOutcome
where
    F: FnOnce() -> Vec<u8> + Send + 'static,
{
    let start = Instant::now();
    let mut fds = [0i32; 2];
    unsafe {
        if libc::pipe(fds.as_mut_ptr()) != 0 {
            panic!("pipe failed");
        }
    }
    let pid = unsafe { libc::fork() };
    if pid < 0 {
        panic!("fork failed");
    }
    if pid == 0 {
        // child
        unsafe {
            libc::close(fds[0]);
            if let Some(lim) = limits.rlimit_as {
                let r = libc::rlimit {
                    rlim_cur: lim,
                    rlim_max: lim,
                };
                libc::setrlimit(libc::RLIMIT_AS, &r);
            }
            // no core dumps
            let r = libc::rlimit {
                rlim_cur: 0,
                rlim_max: 0,
            };
            libc::setrlimit(libc::RLIMIT_CORE, &r);
        }
        set_entropy_seed(seed);
        install_panic_recorder();
        crate::alloc::reset_peak();
        let wfd = fds[1];
        let stack = limits.stack_bytes;
        let handle = std::thread::Builder::new()
            .name("sim".into())
            .stack_size(stack)
            .spawn(move || std::panic::catch_unwind(std::panic::AssertUnwindSafe(f)));
        let (code, bytes) = match handle.map(|h| h.join()) {
            Ok(Ok(Ok(bytes))) => (0, bytes),
            Ok(Ok(Err(_))) | Ok(Err(_)) => {
                let msgs = take_panics().join(" | ");
                (101, format!("PANIC: {}", msgs).into_bytes())
            }
            Err(e) => (102, format!("spawn failed: {}", e).into_bytes()),
        };
        unsafe {
            let mut off = 0usize;
            while off < bytes.len() {
                let n = libc::write(
                    wfd,
                    bytes.as_ptr().add(off) as *const libc::c_void,
                    bytes.len() - off,
                );
                if n <= 0 {
                    break;
                }
                off += n as usize;
            }
            libc::close(wfd);
            libc::_exit(code);
        }
    }
    // parent
    unsafe {
        libc::close(fds[1]);
    }
    let rfd = fds[0];
    // Reader with timeout via poll.
    let mut output = Vec::new();
    let deadline = start + limits.wall_timeout;
    let mut timed_out = false;
    let mut file = unsafe { std::fs::File::from_raw_fd(rfd) };
    loop {
        let now = Instant::now();
        if now >= deadline {
            timed_out = true;
            break;
        }
        let ms = (deadline - now).as_millis().min(1000) as i32;
        let mut pfd = libc::pollfd {
            fd: rfd,
            events: libc::POLLIN,
            revents: 0,
        };
        let r = unsafe { libc::poll(&mut pfd, 1, ms) };
        if r < 0 {
            let e = std::io::Error::last_os_error();
            if e.kind() == std::io::ErrorKind::Interrupted {
                continue;
            }
            break;
        }
        if r == 0 {
            continue;
        }
        let mut buf = [0u8; 65536];
        match file.read(&mut buf) {
            Ok(0) => break,
            Ok(n) => output.extend_from_slice(&buf[..n]),
            Err(e) if e.kind() == std::io::ErrorKind::Interrupted => continue,
            Err(_) => break,
        }
    }
    drop(file);
    let mut status = 0i32;
    if timed_out {
        unsafe {
            libc::kill(pid, libc::SIGKILL);
            libc::waitpid(pid, &mut status, 0);
        }
        return ChildOutcome {
            exit: ExitKind::TimedOut,
            output,
            wall: start.elapsed(),
        };
    }
    // The pipe closed: child is exiting (or a grandchild thread died). Wait, bounded.
    loop {
        let r = unsafe { libc::waitpid(pid, &mut status, libc::WNOHANG) };
        if r == pid {
            break;
        }
        if r < 0 {
            break;
        }
        if Instant::now() >= deadline {
            unsafe {
                libc::kill(pid, libc::SIGKILL);
                libc::waitpid(pid, &mut status, 0);
            }
            return ChildOutcome {
                exit: ExitKind::TimedOut,
                output,
                wall: start.elapsed(),
            };
        }
        std::thread::sleep(Duration::from_micros(200));
    }
    let exit = if libc::WIFEXITED(status) {
        ExitKind::Exited(libc::WEXITSTATUS(status))
    } else if libc::WIFSIGNALED(status) {
        ExitKind::Signaled(libc::WTERMSIG(status))
    } else {
        ExitKind::Exited(-1)
    };
    ChildOutcome {
        exit,
        output,
        wall: start.elapsed(),
    }
}

/// A cross-process work counter in shared anonymous memory.
pub struct SharedCounter {
    ptr: *mut AtomicU64,
}
unsafe impl Send for SharedCounter {}
unsafe impl Sync for SharedCounter {}

impl SharedCounter {
    pub fn new(slots: usize) -> Self {
        let p = unsafe {
            libc::mmap(
                std::ptr::null_mut(),
                8 * slots.max(1),
                libc::PROT_READ | libc::PROT_WRITE,
                libc::MAP_SHARED | libc::MAP_ANONYMOUS,
                -1,
                0,
            )
        };
        if p == libc::MAP_FAILED {
            panic!("mmap failed");
        }
        Self {
            ptr: p as *mut AtomicU64,
        }
    }
    pub fn slot(&self, i: usize) -> &AtomicU64 {
        unsafe { &*self.ptr.add(i) }
    }
}
