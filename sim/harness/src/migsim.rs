//! E2 "migration" mode — live slot migration under concurrent client traffic.
//! Real broker + real coordinator loops + real proxies + SimRedis.
//!
//! C03: per-key linearizability during the migration, exact final placement after commit.
//! C19: every RESTORE that transfers a key carries a ttl consistent with the PTTL read for it.

use futures::StreamExt as _;
use crate::broker::{node_addrs, proxy_addr, Cfg as BrokerCfg};
use crate::cluster::{bulk_cmd, run_sim, spawn_coordinator, spawn_proxy, spawn_redis_nodes, BrokerHolder, Client, ProxyParams};
use crate::framework::{Check, Meta, RunRecord, Tier, Violation};
use crate::lin::{self, HOp, KState, Obs, Op};
use crate::rng::Rng;
use crate::sandbox::ChildLimits;
use crate::simnet::Net;
use crate::simredis::Val;
use crate::slots::slot_of;
use crate::views;
use serde_json::{json, Value};
use std::collections::BTreeMap;
use std::sync::Arc;
use std::time::Duration;
use undermoon::common::cluster::Role;
use undermoon::protocol::{BulkStr, Resp, RespVec};

fn op_from(name: &str, val: &[u8]) -> Op {
    match name {
        "GET" => Op::Get,
        "SET" => Op::Set(val.to_vec()),
        "SETNX" => Op::SetNx(val.to_vec()),
        "GETSET" => Op::GetSet(val.to_vec()),
        "APPEND" => Op::Append(val.to_vec()),
        "INCR" => Op::Incr,
        "EXISTS" => Op::Exists,
        "DEL" => Op::Del,
        "STRLEN" => Op::Strlen,
        "LPUSH" => Op::LPush(val.to_vec()),
        "RPUSH" => Op::RPush(val.to_vec()),
        "LPOP" => Op::LPop,
        "RPOP" => Op::RPop,
        _ => Op::LLen,
    }
}

fn cmd_for(name: &str, key: &[u8], val: &[u8]) -> Vec<Vec<u8>> {
    match name {
        "GET" | "INCR" | "EXISTS" | "DEL" | "STRLEN" | "LPOP" | "RPOP" | "LLEN" => bulk_cmd(&[name.as_bytes(), key]),
        _ => bulk_cmd(&[name.as_bytes(), key, val]),
    }
}

fn classify(reply: &Result<RespVec, ()>, probes: &mut BTreeMap<String, u64>) -> Obs {
    match reply {
        Err(()) => {
            *probes.entry("client_conn_error".into()).or_insert(0) += 1;
            Obs::Unknown
        }
        Ok(Resp::Simple(_)) => Obs::Ok,
        Ok(Resp::Integer(i)) => Obs::Int(std::str::from_utf8(i).ok().and_then(|s| s.parse().ok()).unwrap_or(i64::MIN)),
        Ok(Resp::Bulk(BulkStr::Nil)) => Obs::Nil,
        Ok(Resp::Bulk(BulkStr::Str(s))) => Obs::Bulk(s.clone()),
        Ok(Resp::Error(e)) => {
            let s = String::from_utf8_lossy(e).to_string();
            if s.starts_with("WRONGTYPE") || s.starts_with("ERR value is not") {
                Obs::Err(s)
            } else {
                let head: String = s.split(' ').take(3).collect::<Vec<_>>().join(" ");
                *probes.entry(format!("client_error_reply:{}", head)).or_insert(0) += 1;
                Obs::Unknown
            }
        }
        Ok(_) => Obs::Unknown,
    }
}

pub struct MigrationCheck {
    pub prop: &'static str,
}

const OPS_STR: [&str; 9] = ["GET", "GET", "SET", "SET", "SETNX", "GETSET", "APPEND", "EXISTS", "DEL"];
const OPS_CNT: [&str; 4] = ["INCR", "INCR", "GET", "DEL"];
const OPS_LST: [&str; 6] = ["LPUSH", "RPUSH", "LPOP", "RPOP", "LLEN", "DEL"];

impl Check for MigrationCheck {
    fn id(&self) -> &'static str {
        self.prop
    }
    fn engine(&self) -> &'static str {
        "E2 cluster-sim (migration)"
    }
    fn budget(&self, tier: Tier) -> (u64, Duration) {
        match tier {
            Tier::Quick => (400, Duration::from_secs(50)),
            Tier::Thorough => (40_000, Duration::from_secs(1200)),
        }
    }
    fn gen_plan(&self, seed: u64, index: u64, _tier: Tier) -> Value {
        let mut rng = Rng::new(seed, "plan");
        let ttl_mode = self.prop == "C19";
        // every fourth C03 run: value compression on (string keys and the commands that stay
        // meaningful on compressed values only); reads must still return what was written
        let compress = !ttl_mode && index % 4 == 2;
        let scale_out = rng.chance(1, 2);
        let (start_chunks, target_chunks) = if scale_out { (*rng.pick(&[1usize, 1, 2]), 0usize) } else { (*rng.pick(&[2usize, 2, 3]), 0usize) };
        let target_chunks = if scale_out { start_chunks + 1 } else { start_chunks - 1 + target_chunks };
        let n_proxies = 2 * start_chunks.max(target_chunks);
        let n_keys = rng.range(16, 48) as usize;
        let n_clients = rng.range(2, 4) as usize;
        let mut keys = vec![];
        for k in 0..n_keys {
            let class = if ttl_mode || compress { "str" } else { *rng.pick(&["str", "str", "str", "cnt", "lst"]) };
            let tagged = rng.chance(1, 6);
            let name = if tagged { format!("{{t{}}}k{}", rng.below(4), k) } else { format!("k{}:{}", k, rng.below(100_000)) };
            // C19: a ttl population (1 ms .. beyond 2^31 and 2^32 ms) and persistent keys
            let ttl_ms: u64 = if ttl_mode { *rng.pick(&[0u64, 0, 30, 200, 1500, 5_000, 60_000, 3_600_000, 2_592_000_000, 5_000_000_000]) } else { 0 };
            keys.push(json!({"name": name, "class": class, "preload": rng.chance(2, 3), "ttl_ms": ttl_ms}));
        }
        // lock-collision groups: a hot key (many deleting commands -> push-before-delete path) and
        // quiet preloaded keys whose migration lock slot (CRC16-ARC) collides with the hot key's
        let mut hot_keys: Vec<usize> = vec![];
        if !ttl_mode {
            let groups = rng.range(1, 4);
            for g in 0..groups {
                let hot_name = format!("hot{}:{}", g, rng.below(100_000));
                let l = crate::slots::lock_slot_of(hot_name.as_bytes());
                let hot_class = if compress { "str" } else { *rng.pick(&["str", "lst"]) };
                hot_keys.push(keys.len());
                keys.push(json!({"name": hot_name, "class": hot_class, "preload": true, "ttl_ms": 0}));
                let quiet = rng.range(1, 3);
                let mut found = 0;
                let mut n = rng.below(1_000_000);
                while found < quiet {
                    let cand = format!("q{}:{}", g, n);
                    if crate::slots::lock_slot_of(cand.as_bytes()) == l {
                        keys.push(json!({"name": cand, "class": "str", "preload": true, "ttl_ms": 0, "quiet": true}));
                        found += 1;
                    }
                    n += 1;
                }
            }
        }
        let scale_at = rng.range(50, 1500);
        let span_ms = 7000u64;
        let mut ops = vec![];
        let n_ops = rng.range(80, 220) as usize;
        for i in 0..n_ops {
            let k = rng.below(n_keys as u64) as usize;
            let class = keys[k]["class"].as_str().unwrap_or("str").to_string();
            let name = match class.as_str() {
                "cnt" => *rng.pick(&OPS_CNT),
                "lst" => *rng.pick(&OPS_LST),
                _ => {
                    if ttl_mode {
                        *rng.pick(&["GET", "GET", "EXISTS", "DEL", "SET"])
                    } else if compress {
                        *rng.pick(&["GET", "GET", "SET", "SET", "SETNX", "GETSET", "EXISTS", "DEL"])
                    } else {
                        *rng.pick(&OPS_STR)
                    }
                }
            };
            ops.push(json!({
                "c": rng.below(n_clients as u64),
                "at": rng.below(span_ms),
                "key": k,
                "op": name,
                "val": format!("v{}_{}", i, rng.below(1000)),
                "proxy": rng.below(n_proxies as u64),
            }));
        }
        // extra traffic on the hot keys: delete, re-create, delete ...
        for hk in hot_keys.iter() {
            let class = keys[*hk]["class"].as_str().unwrap_or("str").to_string();
            let n = rng.range(10, 40);
            for j in 0..n {
                let name = if class == "lst" { *rng.pick(&["LPUSH", "LPOP", "RPOP", "RPUSH", "DEL"]) } else { *rng.pick(&["DEL", "SET", "DEL", "SETNX", "GET"]) };
                ops.push(json!({
                    "c": rng.below(n_clients as u64),
                    "at": rng.below(span_ms),
                    "key": *hk,
                    "op": name,
                    "val": format!("h{}_{}", j, rng.below(1000)),
                    "proxy": rng.below(n_proxies as u64),
                }));
            }
        }
        // race pairs: a reading command (on-demand pull on the importing side) and, a few hops later,
        // a deleting command on the same preloaded key from another client through the same proxy,
        // placed inside the migration window
        let max_latency_ms = *rng.pick(&[1u64, 2, 3, 5, 8, 15]);
        if n_clients >= 2 {
            let pre: Vec<usize> = (0..keys.len()).filter(|k| keys[*k]["preload"].as_bool().unwrap_or(false) && keys[*k]["class"].as_str() != Some("cnt")).collect();
            if !pre.is_empty() {
                for j in 0..rng.range(4, 24) {
                    let k = *rng.pick(&pre);
                    let lst = keys[k]["class"].as_str() == Some("lst");
                    let at = scale_at + rng.below(3500);
                    let c1 = rng.below(n_clients as u64);
                    let c2 = (c1 + 1 + rng.below(n_clients as u64 - 1)) % n_clients as u64;
                    let proxy = rng.below(n_proxies as u64);
                    let first = if lst { "LLEN" } else if ttl_mode || compress { *rng.pick(&["GET", "EXISTS"]) } else { *rng.pick(&["GET", "EXISTS", "GET", "APPEND"]) };
                    let second = if lst { *rng.pick(&["DEL", "LPOP", "RPOP"]) } else { "DEL" };
                    ops.push(json!({"c": c1, "at": at, "key": k, "op": first, "val": format!("r{}_{}", j, rng.below(1000)), "proxy": proxy}));
                    ops.push(json!({"c": c2, "at": at + rng.below(6 * max_latency_ms + 1), "key": k, "op": second, "val": format!("d{}_{}", j, rng.below(1000)), "proxy": proxy}));
                }
            }
        }
        // C19 buggify: one node answers PTTL with a fixed value on some runs
        let pttl_override: Value = if ttl_mode && index % 3 == 2 {
            json!(*rng.pick(&["0", "1", "2", "999", "2147483648", "4294967297", "9223372036854775807", "-1", "-2", "-2", "abc"]))
        } else {
            Value::Null
        };
        json!({
            "engine": "cluster", "mode": "migration", "seed": seed,
            "cfg": {
                "start_chunks": start_chunks, "target_chunks": target_chunks, "n_proxies": n_proxies,
                "max_latency_ms": max_latency_ms,
                "backend_conn_num": rng.range(1, 3),
                "active_redirection": rng.chance(1, 3),
                "max_redirections": rng.range(2, 4),
                "scan_count": *rng.pick(&[1u64, 2, 4, 16]),
                "scan_interval_us": *rng.pick(&[0u64, 500, 2000, 20000]),
                "migration_limit": *rng.pick(&[0u64, 1, 2]),
                "compress_meta": rng.chance(1, 2),
                "n_clients": n_clients,
                "scale_at_ms": scale_at,
                "scan_dup": rng.chance(1, 4),
                "pttl_override": pttl_override,
                "compression": if compress { "allow_all" } else { "disabled" },
                // heavy-tailed latency: lets a message on one connection be overtaken by a whole
                // exchange on others
                // directed schedule fault: the next n RESTORE messages stay in flight up to x ms longer, and
                // a racing client deletes their key through a random proxy the moment they are sent
                "racer": if index % 3 == 1 { json!({"uses": rng.range(4, 40), "extra_ms_max": *rng.pick(&[30u64, 120, 400, 400]), "jitter_ms": rng.below(4), "pulls_only": rng.chance(2, 3)}) } else { Value::Null },
                // directed schedule fault: around the start of the migration, writes a proxy has sent to
                // its own Redis stay in flight up to x ms longer (the pre-switch barrier has to wait for them)
                "slow_writes": if index % 3 == 2 { json!({"uses": rng.range(6, 40), "extra_ms_max": *rng.pick(&[60u64, 200, 500]), "lead_ms": rng.below(600)}) } else { Value::Null },
                "spike_pm": *rng.pick(&[0u64, 0, 20, 60, 150]),
                "spike_factor_max": *rng.pick(&[8u64, 20, 40]),
            },
            "keys": keys,
            "ops": ops,
        })
    }

    fn execute(&self, plan: &Value, want_sample: bool) -> RunRecord {
        let plan = plan.clone();
        let prop = self.prop;
        run_sim(async move { run_migration(prop, &plan, want_sample).await })
    }

    fn limits(&self, _plan: Option<&Value>) -> ChildLimits {
        ChildLimits { wall_timeout: Duration::from_secs(120), rlimit_as: None, stack_bytes: 32 << 20 }
    }
    fn shrink_arrays(&self) -> Vec<&'static str> {
        vec!["/ops"]
    }
    fn minimise_budget(&self, tier: Tier) -> u64 {
        match tier {
            Tier::Quick => 120,
            Tier::Thorough => 400,
        }
    }
    fn abnormal_exit(&self, exit: &crate::sandbox::ExitKind, output: &str) -> Option<Violation> {
        let _ = (exit, output);
        None
    }
    fn meta(&self) -> Meta {
        Meta {
            level: "exploration",
            rule: if self.prop == "C02" {
                "same plans as C03's migration runs (scale out/in by one chunk under client traffic, heavy-tailed latencies, racer, slow writes, compression); the broker's epoch is sampled every 100 ms. Judged: every client command whose whole exchange lies in a stretch where the epoch had been unchanged for 1.5 s (so every proxy had applied the current metadata): it must reach its executing proxy after at most three redirections and must not still be answered MOVED after six. Non-trivial = >=1 command judged and a migration started."
            } else if self.prop == "C03" {
                "plan = cluster of 1-3 chunks scaled out or in by one chunk while 2-4 clients issue 80-220 string/counter/list operations (incl. DEL/LPOP/RPOP) on 16-48 keys through random proxies, following MOVED; real coordinator loops drive metadata and commit. Every third run slow writes: from shortly before the migration starts, the next 6-40 writes a proxy has sent to its own Redis stay in flight up to 60-500 ms longer (the pre-switch barrier must wait for them). Every third run a racer: the next 4-40 RESTORE messages stay in flight up to 30-400 ms longer and a racing client deletes their key through a random proxy the moment they are sent; 4-24 read-then-delete pairs of two clients a few hops apart in every run. Swarm: latency 1-15 ms with a heavy tail (0-15% of messages x4..x40, per connection FIFO), backend_conn_num 1-3, active redirection, scan_count 1-16, scan interval, migration_limit, compressed metadata, SCAN duplicates. Non-trivial = migration committed AND >=1 write and >=1 deleting command were acknowledged while a migration was in flight; distinct = distinct (delivery-schedule hash, end state hash)."
            } else {
                "same plan with a TTL key population (30 ms .. 1 h, 30 days and 5e9 ms i.e. beyond 2^31/2^32 ms, and persistent); every third run the source nodes answer PTTL with a buggified value {0,1,2,999,2^31,2^32+1,2^63-1,-1,-2,malformed}. Non-trivial = >=1 RESTORE of a key with a remaining TTL was matched with its PTTL reading."
            },
            real: vec!["broker::MemBrokerService", "coordinator::CoordinatorService loops (detect, proxy sync, migration sync)", "proxy::* (Session, SharedForwardHandler, MetaManager, blocking queue, backend senders, migration_backend)", "migration::* (scan_task, scan_migration, manager)", "replication::*", "common::proto encodings"],
            stubs: vec!["TCP (SimNet packet-level channels)", "Redis (SimRedis model)", "HTTP coordinator->broker hop (direct service calls with serde_json round trip)", "RedisClient implementations (SimRedisClient incl. timeout/stale behaviour)"],
            assumptions: vec!["SimRedis is a faithful model of the Redis commands used", "tokio current_thread runtime with paused clock; message-level interleavings only"],
            fault_kinds: vec!["msg_delay_reorder", "latency_spike", "directed_delay_of_watched_message", "scan_duplicates", "pttl_buggify"],
        }
    }
}

/// proxies that currently belong to the cluster (what a cluster-aware client would learn)
async fn cluster_members(holder: &Arc<BrokerHolder>) -> Vec<String> {
    let st = match holder.get().get_all_data().await {
        Ok(s) => s,
        Err(_) => return vec![],
    };
    let mut v: Vec<String> = st.clusters.values().flat_map(|c| c.get_proxy_addresses()).collect();
    v.sort();
    v
}

struct KeyInfo {
    name: Vec<u8>,
    class: String,
    preload: bool,
    ttl_ms: u64,
}

fn dbg(net: &Net, what: &str) {
    if std::env::var("VERIF_DEBUG").is_ok() {
        eprintln!("[dbg t={}ms seq={}] {}", net.now_ms(), net.inner.lock().seq, what);
    }
}

/// Post-mortem classification of a resurrected key. Returns a description when the Redis logs show
/// this exact pattern on some node N served by proxy P:
///   P's on-demand pull started (EXISTS answered 0 on N), P was then told new metadata, a DEL from P
///   executed on N *without* P having sent the UMSYNC that the importing path sends first (so the
///   importing task for the slot was already gone), and only afterwards the pull's RESTORE landed.
fn late_pull_restore(net: &Net, n_proxies: usize, key: &[u8]) -> Option<String> {
    let (conn_src, msgs) = {
        let g = net.inner.lock();
        (g.conn_src.clone(), g.proxy_msgs.clone())
    };
    for h in 0..n_proxies {
        let paddr = proxy_addr(h, 0);
        let own = format!("proxy:{}#", paddr);
        for a in node_addrs(h, 0).iter() {
            let entries: Vec<(u64, String, String, String)> = match net.redis(a) {
                Some(r) => r
                    .lock()
                    .log
                    .iter()
                    .filter(|e| e.cmd.len() >= 2 && e.cmd[1] == key)
                    .map(|e| (e.seq, conn_src.get(&e.conn).cloned().unwrap_or_default(), String::from_utf8_lossy(&e.cmd[0]).to_uppercase(), e.reply.clone()))
                    .collect(),
                None => continue,
            };
            for (rs, rsrc, rname, rreply) in entries.iter() {
                if rname != "RESTORE" || !rreply.starts_with('+') || !rsrc.starts_with(&own) {
                    continue;
                }
                // the delete that emptied the key before this RESTORE
                let d = entries.iter().filter(|(s, _, n, rep)| s < rs && n == "DEL" && rep == ":1").max_by_key(|x| x.0);
                let (ds, dsrc) = match d {
                    Some((s, src, _, _)) => (*s, src.clone()),
                    None => continue,
                };
                if !dsrc.starts_with(&own) {
                    continue;
                }
                let writes_between = entries.iter().any(|(s, _, n, rep)| *s > ds && s < rs && matches!(n.as_str(), "SET" | "APPEND" | "LPUSH" | "RPUSH" | "INCR" | "SETNX" | "GETSET" | "RESTORE") && !rep.starts_with('-'));
                if writes_between {
                    continue;
                }
                // the pull this RESTORE belongs to started with an EXISTS answered 0
                let e = entries.iter().filter(|(s, src, n, rep)| *s < ds && src.starts_with(&own) && n == "EXISTS" && rep == ":0").max_by_key(|x| x.0);
                let es = match e {
                    Some(x) => x.0,
                    None => continue,
                };
                let umsync_sent = msgs.iter().any(|(s, src, _, n, arg)| *s > es && *s < ds && src.starts_with(&own) && n == "UMSYNC" && arg.as_slice() == key);
                if umsync_sent {
                    continue;
                }
                // new (strictly newer) metadata delivered to P in that window
                let mut max_before = 0u64;
                let mut new_meta = None;
                for (s, _, dst, n, arg) in msgs.iter() {
                    if dst != &paddr || n != "UMCTL SETCLUSTER" {
                        continue;
                    }
                    let ep: u64 = String::from_utf8_lossy(arg).parse().unwrap_or(0);
                    if *s > es && *s < ds && ep > max_before && new_meta.is_none() {
                        new_meta = Some((*s, ep));
                    }
                    if *s < ds {
                        max_before = max_before.max(ep);
                    }
                }
                if let Some((ms, ep)) = new_meta {
                    return Some(format!(
                        "on {} (proxy {}): on-demand pull started at seq {} (EXISTS -> 0), metadata of epoch {} reached the proxy at seq {}, DEL executed directly at seq {} (no UMSYNC: the importing task was gone), the pull's RESTORE landed at seq {} and brought the deleted value back",
                        a, paddr, es, ep, ms, ds, rs
                    ));
                }
            }
        }
    }
    None
}

async fn run_migration(prop: &'static str, plan: &Value, want_sample: bool) -> RunRecord {
    let mut rec = RunRecord::default();
    let seed = plan["seed"].as_u64().unwrap_or(0);
    let cfg = &plan["cfg"];
    let n_proxies = cfg["n_proxies"].as_u64().unwrap_or(4) as usize;
    let start_chunks = cfg["start_chunks"].as_u64().unwrap_or(1) as usize;
    let target_chunks = cfg["target_chunks"].as_u64().unwrap_or(2) as usize;
    let net = Net::new(seed, cfg["max_latency_ms"].as_u64().unwrap_or(3));
    net.set_latency_spikes(cfg["spike_pm"].as_u64().unwrap_or(0), cfg["spike_factor_max"].as_u64().unwrap_or(4));
    let pp = ProxyParams {
        backend_conn_num: cfg["backend_conn_num"].as_u64().unwrap_or(2) as usize,
        active_redirection: cfg["active_redirection"].as_bool().unwrap_or(false),
        max_redirections: cfg["max_redirections"].as_u64().unwrap_or(4) as usize,
        ..Default::default()
    };
    let bcfg = BrokerCfg { ordered: false, migration_limit: cfg["migration_limit"].as_u64().unwrap_or(0), quorum: 1, ttl: 60, hosts: vec![1; n_proxies] };
    let holder = BrokerHolder::new(bcfg);
    let mut proxies = vec![];
    for h in 0..n_proxies {
        spawn_redis_nodes(&net, h, 0, seed);
        proxies.push(spawn_proxy(&net, &proxy_addr(h, 0), &pp, 1));
        holder.add_proxy(h, 0).await.expect("add_proxy");
    }
    if cfg["scan_dup"].as_bool().unwrap_or(false) {
        for h in 0..n_proxies {
            for a in node_addrs(h, 0).iter() {
                if let Some(r) = net.redis(a) {
                    r.lock().scan_dup = true;
                }
            }
        }
    }
    let svc = holder.get();
    svc.add_cluster("c0".to_string(), start_chunks * 4).await.expect("add_cluster");
    let mut cc = std::collections::HashMap::new();
    cc.insert("migration_scan_count".to_string(), cfg["scan_count"].as_u64().unwrap_or(16).to_string());
    cc.insert("migration_scan_interval".to_string(), cfg["scan_interval_us"].as_u64().unwrap_or(500).to_string());
    let compress = cfg["compression"].as_str().unwrap_or("disabled") != "disabled";
    if compress {
        cc.insert("compression_strategy".to_string(), cfg["compression"].as_str().unwrap_or("allow_all").to_string());
        rec.probe("runs_with_value_compression");
    }
    let _ = svc.change_config("c0".to_string(), cc).await;
    let mut coord = spawn_coordinator(&net, &holder, 0, cfg["compress_meta"].as_bool().unwrap_or(false), true);

    dbg(&net, "world built");
    // let the first sync rounds install the metadata everywhere
    tokio::time::sleep(Duration::from_millis(2500)).await;

    let keys: Vec<KeyInfo> = plan["keys"]
        .as_array()
        .map(|a| {
            a.iter()
                .map(|k| KeyInfo {
                    name: k["name"].as_str().unwrap_or("k").as_bytes().to_vec(),
                    class: k["class"].as_str().unwrap_or("str").to_string(),
                    preload: k["preload"].as_bool().unwrap_or(false),
                    ttl_ms: k["ttl_ms"].as_u64().unwrap_or(0),
                })
                .collect()
        })
        .unwrap_or_default();
    let keys = Arc::new(keys);
    let history: Arc<parking_lot::Mutex<Vec<(usize, HOp)>>> = Arc::new(parking_lot::Mutex::new(vec![]));
    let probes: Arc<parking_lot::Mutex<BTreeMap<String, u64>>> = Arc::new(parking_lot::Mutex::new(BTreeMap::new()));
    let max_hops = 6;

    dbg(&net, "after initial sync wait");
    // preload (sequential, part of the history)
    {
        let mut cl = Client::new(&net, 100);
        let mut id = 0usize;
        for (ki, k) in keys.iter().enumerate() {
            if !k.preload {
                continue;
            }
            let (name, val): (&str, Vec<u8>) = match k.class.as_str() {
                "cnt" => ("INCR", vec![]),
                "lst" => ("RPUSH", format!("init{}", ki).into_bytes()),
                _ => ("SET", format!("init{}", ki).into_bytes()),
            };
            let mut cmd = cmd_for(name, &k.name, &val);
            if k.ttl_ms > 0 && name == "SET" {
                cmd.push(b"PX".to_vec());
                cmd.push(k.ttl_ms.to_string().into_bytes());
            }
            let members = cluster_members(&holder).await;
            let r = cl.call(&members[ki % members.len()], &cmd, max_hops).await;
            let obs = classify(&r.reply, &mut probes.lock());
            let ret = if obs == Obs::Unknown { u64::MAX } else { r.ret_seq };
            history.lock().push((ki, HOp { id, inv: r.inv_seq, ret, op: op_from(name, &val), obs, client: 100 }));
            id += 1;
        }
    }

    dbg(&net, "preloaded");
    // C19 buggify
    if let Some(o) = cfg["pttl_override"].as_str() {
        // the first chunk's masters (sources of scale-out) / last chunk's (sources of scale-in)
        let src_h = if target_chunks > start_chunks { 0 } else { 2 * (start_chunks - 1) };
        for h in [src_h, src_h + 1] {
            for a in node_addrs(h, 0).iter() {
                if let Some(r) = net.redis(a) {
                    r.lock().pttl_override = Some(o.to_string());
                }
            }
        }
        rec.fault("pttl_buggify");
    }

    let mig_started_seq = Arc::new(std::sync::atomic::AtomicU64::new(u64::MAX));
    let mig_committed_seq = Arc::new(std::sync::atomic::AtomicU64::new(u64::MAX));

    // admin: scaling request
    let admin = {
        let holder = holder.clone();
        let net = net.clone();
        let started = mig_started_seq.clone();
        let at = cfg["scale_at_ms"].as_u64().unwrap_or(100);
        tokio::spawn(async move {
            tokio::time::sleep(Duration::from_millis(at)).await;
            let svc = holder.get();
            if target_chunks > start_chunks {
                let _ = svc.auto_scale_up_nodes("c0".to_string(), target_chunks * 4).await;
                // the two-phase API waits until the new proxies have the metadata before starting the migration
                tokio::time::sleep(Duration::from_millis(1500)).await;
                let r = svc.migrate_slots("c0".to_string()).await;
                let s = net.event("admin_migrate", 3, &format!("{:?}", r.is_ok()));
                started.store(s, std::sync::atomic::Ordering::SeqCst);
            } else {
                let r = svc.migrate_slots_to_scale_down("c0".to_string(), target_chunks * 4).await;
                let s = net.event("admin_scale_down", 3, &format!("{:?}", r.is_ok()));
                started.store(s, std::sync::atomic::Ordering::SeqCst);
            }
        })
    };

    // C02 (migration part): every operation's redirections, and the broker's epoch sampled every
    // 100 ms, so that "all proxies had time to apply the current metadata" can be judged afterwards
    let hop_log: Arc<parking_lot::Mutex<Vec<(u64, u64, usize, bool, String)>>> = Arc::new(parking_lot::Mutex::new(vec![])); // (inv ms, ret ms, hops, still MOVED, what)
    let epoch_log: Arc<parking_lot::Mutex<Vec<(u64, u64)>>> = Arc::new(parking_lot::Mutex::new(vec![]));
    let sampler = {
        let holder = holder.clone();
        let net = net.clone();
        let epoch_log = epoch_log.clone();
        tokio::spawn(async move {
            loop {
                if let Ok(st) = holder.get().get_all_data().await {
                    epoch_log.lock().push((net.now_ms(), st.get_global_epoch()));
                }
                tokio::time::sleep(Duration::from_millis(100)).await;
            }
        })
    };
    // clients
    let n_clients = cfg["n_clients"].as_u64().unwrap_or(2) as usize;
    let ops: Vec<Value> = plan["ops"].as_array().cloned().unwrap_or_default();
    let mut tasks = vec![];
    let base_id = history.lock().len();
    let t0 = tokio::time::Instant::now();
    for c in 0..n_clients {
        let my: Vec<(usize, Value)> = ops.iter().cloned().enumerate().filter(|(_, o)| o["c"].as_u64().unwrap_or(0) as usize % n_clients == c).collect();
        let net = net.clone();
        let keys = keys.clone();
        let history = history.clone();
        let probes = probes.clone();
        let holder = holder.clone();
        let hop_log = hop_log.clone();
        tasks.push(tokio::spawn(async move {
            let mut cl = Client::new(&net, c);
            let mut my = my;
            my.sort_by_key(|(_, o)| o["at"].as_u64().unwrap_or(0));
            for (i, o) in my {
                let at = t0 + Duration::from_millis(o["at"].as_u64().unwrap_or(0));
                if tokio::time::Instant::now() < at {
                    tokio::time::sleep_until(at).await;
                }
                let ki = o["key"].as_u64().unwrap_or(0) as usize % keys.len().max(1);
                let k = &keys[ki];
                let mut name = o["op"].as_str().unwrap_or("GET");
                // keep the operation within the key's class (plans may be edited by the minimiser)
                let allowed: &[&str] = match k.class.as_str() {
                    "cnt" => &OPS_CNT,
                    "lst" => &OPS_LST,
                    _ => &OPS_STR,
                };
                if !allowed.contains(&name) {
                    name = "EXISTS";
                }
                let val = o["val"].as_str().unwrap_or("v").as_bytes().to_vec();
                let cmd = cmd_for(name, &k.name, &val);
                let members = cluster_members(&holder).await;
                let p = o["proxy"].as_u64().unwrap_or(0) as usize;
                let target = if members.is_empty() { proxy_addr(p, 0) } else { members[p % members.len()].clone() };
                let inv_ms = net.now_ms();
                let r = cl.call(&target, &cmd, max_hops).await;
                let still_moved = r.reply.as_ref().ok().and_then(crate::cluster::parse_moved).is_some();
                hop_log.lock().push((inv_ms, net.now_ms(), r.hops, still_moved, format!("{} {} via {:?}", name, String::from_utf8_lossy(&k.name), r.path)));
                let obs = classify(&r.reply, &mut probes.lock());
                if r.hops > 0 {
                    *probes.lock().entry(format!("moved_hops_{}", r.hops.min(6))).or_insert(0) += 1;
                }
                let ret = if obs == Obs::Unknown { u64::MAX } else { r.ret_seq };
                history.lock().push((ki, HOp { id: base_id + i, inv: r.inv_seq, ret, op: op_from(name, &val), obs, client: c }));
            }
        }));
    }

    if cfg["slow_writes"].is_object() {
        let sw = &cfg["slow_writes"];
        let start = cfg["scale_at_ms"].as_u64().unwrap_or(100) + if target_chunks > start_chunks { 1500 } else { 0 };
        // run time 0 of the plan is `t0`; the net clock started earlier
        let from_ms = net.now_ms() + start.saturating_sub(sw["lead_ms"].as_u64().unwrap_or(0));
        net.add_watch(crate::simnet::Watch {
            cmd: "SET".to_string(),
            also: ["APPEND", "LPUSH", "RPUSH", "INCR", "SETNX", "GETSET", "DEL", "LPOP", "RPOP"].iter().map(|x| x.to_string()).collect(),
            from_ms,
            uses_left: sw["uses"].as_u64().unwrap_or(10) as u32,
            extra_ms_max: sw["extra_ms_max"].as_u64().unwrap_or(200),
            only_local: true,
            notify: None,
        });
    }
    // the racer: told about every watched RESTORE as it is sent, deletes that key at once
    let racer = if cfg["racer"].is_object() {
        let (tx, mut rx) = futures::channel::mpsc::unbounded::<Vec<u8>>();
        net.add_watch(crate::simnet::Watch { cmd: "RESTORE".to_string(), also: vec![], from_ms: 0, uses_left: cfg["racer"]["uses"].as_u64().unwrap_or(8) as u32, extra_ms_max: cfg["racer"]["extra_ms_max"].as_u64().unwrap_or(100), only_local: cfg["racer"]["pulls_only"].as_bool().unwrap_or(false), notify: Some(tx) });
        let jitter = cfg["racer"]["jitter_ms"].as_u64().unwrap_or(0);
        let net = net.clone();
        let keys = keys.clone();
        let history = history.clone();
        let probes = probes.clone();
        let holder = holder.clone();
        let n_ops = ops.len();
        Some(tokio::spawn(async move {
            let mut cl = Client::new(&net, 700);
            let mut n = 0usize;
            while let Some(kname) = rx.next().await {
                let ki = match keys.iter().position(|k| k.name[..] == kname[..]) {
                    Some(i) => i,
                    None => continue,
                };
                let name = match keys[ki].class.as_str() {
                    "lst" => ["DEL", "LPOP", "RPOP"][n % 3],
                    _ => "DEL",
                };
                if jitter > 0 {
                    tokio::time::sleep(Duration::from_millis(jitter)).await;
                }
                let members = cluster_members(&holder).await;
                if members.is_empty() {
                    continue;
                }
                let target = members[(crate::rng::mix64(n as u64 ^ 0x5ace) % members.len() as u64) as usize].clone();
                let cmd = cmd_for(name, &keys[ki].name, b"");
                let r = cl.call(&target, &cmd, max_hops).await;
                let obs = classify(&r.reply, &mut probes.lock());
                let ret = if obs == Obs::Unknown { u64::MAX } else { r.ret_seq };
                history.lock().push((ki, HOp { id: base_id + n_ops + n, inv: r.inv_seq, ret, op: op_from(name, b""), obs, client: 700 }));
                *probes.lock().entry("racer_deletes".to_string()).or_insert(0) += 1;
                n += 1;
            }
        }))
    } else {
        None
    };

    // wait: clients done and migration committed
    for t in tasks {
        let _ = t.await;
    }
    dbg(&net, "clients done");
    let _ = admin.await;
    dbg(&net, "admin done");
    let mut committed = false;
    for _ in 0..600 {
        let st = holder.get().get_all_data().await.expect("data");
        let migrating = st.clusters.values().any(|c| c.is_migrating());
        if !migrating && mig_started_seq.load(std::sync::atomic::Ordering::SeqCst) != u64::MAX {
            committed = true;
            mig_committed_seq.store(net.event("observed_committed", 3, ""), std::sync::atomic::Ordering::SeqCst);
            break;
        }
        tokio::time::sleep(Duration::from_millis(100)).await;
    }
    dbg(&net, "commit wait over");
    // quiescence: let the last metadata reach the proxies and the tasks stop
    tokio::time::sleep(Duration::from_millis(4000)).await;
    coord.crash();
    if let Some(r) = racer {
        r.abort();
        let _ = r.await;
    }
    rec.vtime_ms = net.now_ms();

    sampler.abort();
    if prop == "C02" {
        // more than three redirections (or still being redirected after six) although the broker's
        // epoch had not changed for 1.5 s before the command and did not change while it ran
        let elog = epoch_log.lock().clone();
        let epoch_at = |ms: u64| elog.iter().filter(|(t, _)| *t <= ms).map(|(_, e)| *e).last();
        let (mut judged, mut over) = (0u64, 0u64);
        for (inv, ret, hops, still_moved, what) in hop_log.lock().iter() {
            let settled = match (epoch_at(inv.saturating_sub(1500)), epoch_at(*inv), epoch_at(*ret)) {
                (Some(a), Some(b), Some(c)) => a == b && b == c && *inv >= 1500,
                _ => false,
            };
            if !settled {
                continue;
            }
            judged += 1;
            if *hops > 3 || *still_moved {
                over += 1;
                rec.violate(Violation::new("C02", "too-many-redirections", format!("{}: {} redirections{} although the broker's epoch had been unchanged for 1.5 s (t={}..{} ms)", what, hops, if *still_moved { ", still answered MOVED" } else { "" }, inv, ret)));
                if over >= 3 {
                    break;
                }
            }
        }
        rec.probe_n("c02_migration_ops_judged_for_redirections", judged);
        for (k, v) in probes.lock().iter() {
            if k.starts_with("moved_hops") {
                rec.probe_n(k, *v);
            }
        }
        rec.nontrivial = judged > 0 && mig_started_seq.load(std::sync::atomic::Ordering::SeqCst) != u64::MAX;
        {
            let g = net.inner.lock();
            rec.trace_hash = g.trace.0;
            rec.sched_hash = g.sched.0;
            rec.state_hash = g.trace.0;
            rec.steps = g.seq;
            for (k, v) in g.fault_counts.iter() {
                *rec.faults.entry(k.clone()).or_insert(0) += v;
            }
            rec.faults.insert("msg_delay_reorder".into(), g.delivered);
        }
        if want_sample {
            rec.sample = Some(json!({"plan": plan, "ops_judged": judged}));
        }
        return rec;
    }
    // ---- oracles
    let hist = history.lock().clone();
    let mut per_key: BTreeMap<usize, Vec<HOp>> = BTreeMap::new();
    for (k, h) in hist.iter() {
        per_key.entry(*k).or_default().push(h.clone());
    }
    let st = holder.get().get_all_data().await.expect("data");
    let final_view = st.get_cluster_by_name("c0", 0);
    let started = mig_started_seq.load(std::sync::atomic::Ordering::SeqCst);
    let committed_seq = mig_committed_seq.load(std::sync::atomic::Ordering::SeqCst);
    let mut writes_during = 0u64;
    let mut deletes_during = 0u64;
    for (_, h) in hist.iter() {
        if h.inv > started && h.ret < committed_seq && h.obs != Obs::Unknown {
            if h.op.is_delete_family() {
                deletes_during += 1;
            } else if h.op.is_write() {
                writes_during += 1;
            }
        }
    }
    rec.probe_n("acked_writes_during_migration", writes_during);
    rec.probe_n("acked_deletes_during_migration", deletes_during);
    rec.probe_n("migration_committed", committed as u64);
    if !committed {
        rec.probe("migration_not_committed_within_60s");
    }

    // collect node contents
    let now = net.now_ms();
    let mut holders: BTreeMap<Vec<u8>, Vec<(String, KState, Option<u64>)>> = BTreeMap::new();
    let mut total_restore = 0u64;
    let mut total_busy = 0u64;
    let mut total_scan = 0u64;
    for h in 0..n_proxies {
        for a in node_addrs(h, 0).iter() {
            if let Some(r) = net.redis(a) {
                let mut g = r.lock();
                total_restore += g.counters.get("restore").cloned().unwrap_or(0);
                total_busy += g.counters.get("restore_busykey").cloned().unwrap_or(0);
                total_scan += g.counters.get("scan").cloned().unwrap_or(0);
                for k in g.live_keys(now) {
                    if let Some(e) = g.data.get(&k) {
                        let ks = match &e.val {
                            // with compression on, the nodes hold zstd frames of what the clients wrote
                            Val::Str(s) => KState::Str(if compress { zstd::decode_all(&s[..]).unwrap_or_else(|_| s.clone()) } else { s.clone() }),
                            Val::List(l) => KState::List(l.clone()),
                        };
                        holders.entry(k.clone()).or_default().push((a.clone(), ks, e.expire_at));
                    }
                }
            }
        }
    }
    rec.probe_n("restore_executed", total_restore);
    rec.probe_n("restore_busykey", total_busy);
    rec.probe_n("scan_executed", total_scan);
    {
        let g = net.inner.lock();
        let umsync = g.msg_index.len() as u64;
        let _ = umsync;
    }

    if prop == "C03" {
        let mut lin_explored = 0u64;
        for (ki, ops) in per_key.iter() {
            let k = &keys[*ki];
            let mut ops = ops.clone();
            ops.sort_by_key(|o| o.inv);
            if ops.len() > 60 {
                ops.truncate(60);
                rec.probe("history_truncated");
            }
            let res = lin::check(&KState::Absent, &ops, 400_000);
            lin_explored += res.explored;
            if res.gave_up {
                rec.probe("lin_gave_up");
                continue;
            }
            if !res.ok {
                let brief: Vec<String> = ops.iter().map(|o| format!("c{}[{}..{}]{:?}->{:?}", o.client, o.inv, if o.ret == u64::MAX { 0 } else { o.ret }, o.op, o.obs)).collect();
                let detail = format!("key {} ({}): history is not linearizable against the sequential model (migration started at seq {}, committed at {}): {}", String::from_utf8_lossy(&k.name), k.class, started, committed_seq, brief.join("; "));
                match late_pull_restore(&net, n_proxies, &k.name) {
                    Some(why) => rec.violate(Violation::with_sig("C03", "not-linearizable", "resurrection:pull-restore-lands-after-the-importing-task-ended".to_string(), format!("{} || cause: {}", detail, why))),
                    None => rec.violate(Violation::new("C03", "not-linearizable", detail)),
                }
                continue;
            }
            // final placement
            if committed {
                if let Some(view) = final_view.as_ref() {
                    let slot = slot_of(&k.name);
                    let owner = view.get_nodes().iter().find(|n| n.get_role() == Role::Master && n.get_slots().iter().any(|sr| sr.tag.is_stable() && sr.get_range_list().get_ranges().iter().any(|r| r.start() <= slot && slot <= r.end()))).map(|n| n.get_address().to_string());
                    let hs = holders.get(&k.name).cloned().unwrap_or_default();
                    let on_owner: Vec<&(String, KState, Option<u64>)> = hs.iter().filter(|(a, _, _)| Some(a) == owner.as_ref()).collect();
                    let elsewhere: Vec<&(String, KState, Option<u64>)> = hs.iter().filter(|(a, _, _)| Some(a) != owner.as_ref()).collect();
                    let actual = on_owner.first().map(|x| x.1.clone()).unwrap_or(KState::Absent);
                    if !res.finals.contains(&actual) {
                        let detail = format!("key {} slot {}: owner {:?} holds {:?} but the acknowledged history allows only {:?} (copies elsewhere: {:?})", String::from_utf8_lossy(&k.name), slot, owner, actual, res.finals, elsewhere);
                        match late_pull_restore(&net, n_proxies, &k.name) {
                            Some(why) => rec.violate(Violation::with_sig("C03", "final-value", "resurrection:pull-restore-lands-after-the-importing-task-ended".to_string(), format!("{} || cause: {}", detail, why))),
                            None => rec.violate(Violation::new("C03", "final-value", detail)),
                        }
                    }
                    if !elsewhere.is_empty() {
                        rec.violate(Violation::new(
                            "C03",
                            "leftover-copy",
                            format!("key {} slot {}: designated owner {:?} but copies exist on {:?} after the migration was committed", String::from_utf8_lossy(&k.name), slot, owner, elsewhere.iter().map(|x| x.0.clone()).collect::<Vec<_>>()),
                        ));
                    }
                }
            }
        }
        rec.probe_n("lin_states_explored", lin_explored);
        if let Some(v) = final_view.as_ref() {
            if let Err(e) = views::check_cluster_view(v) {
                rec.violate(Violation::new("C03", "final-view", e));
            }
        }
        rec.nontrivial = committed && writes_during > 0 && deletes_during > 0;
    } else {
        // C19: match every RESTORE with the PTTL reading that preceded it on another node
        let mut pttl_reads: BTreeMap<Vec<u8>, Vec<(u64, String, String)>> = BTreeMap::new(); // key -> (seq, node, reply)
        let mut restores: Vec<(u64, String, Vec<u8>, String)> = vec![];
        for h in 0..n_proxies {
            for a in node_addrs(h, 0).iter() {
                if let Some(r) = net.redis(a) {
                    let g = r.lock();
                    for e in g.log.iter() {
                        let name = String::from_utf8_lossy(&e.cmd[0]).to_uppercase();
                        if name == "PTTL" && e.cmd.len() == 2 {
                            pttl_reads.entry(e.cmd[1].clone()).or_default().push((e.seq, a.clone(), e.reply.clone()));
                        } else if name == "RESTORE" && e.cmd.len() >= 4 && e.reply.starts_with('+') {
                            restores.push((e.seq, a.clone(), e.cmd[1].clone(), String::from_utf8_lossy(&e.cmd[2]).to_string()));
                        }
                    }
                }
            }
        }
        let mut matched_ttl = 0u64;
        restores.sort();
        let mut last_restore: BTreeMap<Vec<u8>, u64> = BTreeMap::new();
        for (seq, node, key, ttl_arg) in restores.iter() {
            let lo = last_restore.get(key).cloned().unwrap_or(0);
            last_restore.insert(key.clone(), *seq);
            let reads = match pttl_reads.get(key) {
                Some(r) => r,
                None => continue,
            };
            // the readings that can belong to this transfer: taken on another node, before this
            // RESTORE and after the previous successful RESTORE of the key. The RESTORE is correct
            // if it is consistent with at least one of them (concurrent transfers of one key by the
            // scan and by a pull each carry their own reading).
            let cands: Vec<&(u64, String, String)> = reads.iter().filter(|(s, n, _)| s < seq && *s > lo && n != node).collect();
            if cands.is_empty() {
                continue;
            }
            let ttl: i64 = ttl_arg.parse().unwrap_or(-1);
            let kname = String::from_utf8_lossy(key).to_string();
            let vals: Vec<Option<i64>> = cands.iter().map(|(_, _, r)| r.strip_prefix(':').and_then(|s| s.parse().ok())).collect();
            if vals.iter().any(|v| v.is_none()) {
                rec.probe("c19_malformed_pttl_transfers");
                continue;
            }
            let vals: Vec<i64> = vals.into_iter().flatten().collect();
            let consistent = vals.iter().any(|p| match *p {
                -1 => ttl == 0,
                0 => ttl != 0,
                p if p >= 1 => ttl >= 1 && ttl <= p,
                _ => false,
            });
            if vals.iter().any(|p| *p == -1) {
                rec.probe("c19_persistent_transfers");
            }
            if vals.iter().any(|p| *p == 0) {
                rec.probe("c19_pttl_zero_transfers");
            }
            if vals.iter().any(|p| *p >= 1) {
                matched_ttl += 1;
            }
            if consistent {
                continue;
            }
            let readings = format!("{:?}", cands.iter().map(|(s, n, r)| format!("{}@{}#{}", r, n, s)).collect::<Vec<_>>());
            if vals.iter().all(|p| *p == -2) {
                rec.violate(Violation::new("C19", "restore-of-missing-key", format!("key {}: PTTL read -2 ({}) but a RESTORE followed on {}", kname, readings, node)));
            } else if ttl == 0 {
                let class = if vals.iter().all(|p| *p == 0) { "pttl=0" } else { "pttl=positive" };
                rec.violate(Violation::with_sig("C19", "expiring-became-persistent", format!("expiring-became-persistent:{}", class), format!("key {}: PTTL readings {} (all expiring) but RESTORE on {} (seq {}) carries ttl 0 = persistent", kname, readings, node, seq)));
            } else if vals.iter().all(|p| *p == -1) {
                rec.violate(Violation::new("C19", "persistent-got-ttl", format!("key {}: PTTL readings {} (persistent) but RESTORE on {} (seq {}) carries ttl {}", kname, readings, node, seq, ttl)));
            } else {
                rec.violate(Violation::new("C19", "ttl-out-of-range", format!("key {}: PTTL readings {} but RESTORE on {} (seq {}) carries ttl {}", kname, readings, node, seq, ttl)));
            }
        }
        rec.probe_n("c19_ttl_transfers_matched", matched_ttl);
        // after migration: no key with a model TTL is persistent anywhere (unless rewritten by a plain SET)
        rec.nontrivial = matched_ttl > 0;
    }

    for (k, v) in probes.lock().iter() {
        rec.probe_n(k, *v);
    }
    {
        let g = net.inner.lock();
        rec.trace_hash = g.trace.0;
        rec.sched_hash = g.sched.0;
        rec.steps = g.seq;
        for (k, v) in g.fault_counts.iter() {
            *rec.faults.entry(k.clone()).or_insert(0) += v;
        }
        rec.faults.insert("msg_delay_reorder".into(), g.delivered);
    }
    if cfg["scan_dup"].as_bool().unwrap_or(false) {
        rec.fault("scan_duplicates");
    }
    let mut sh = crate::rng::TraceHash::new();
    for (k, hs) in holders.iter() {
        sh.add(k);
        for (a, s, _) in hs.iter() {
            sh.add(a.as_bytes());
            sh.add(format!("{:?}", s).as_bytes());
        }
    }
    rec.state_hash = sh.0;
    if want_sample {
        let brief: Vec<String> = hist.iter().take(40).map(|(k, o)| format!("k{} c{} [{}..{}] {:?} -> {:?}", k, o.client, o.inv, if o.ret == u64::MAX { 0 } else { o.ret }, o.op, o.obs)).collect();
        rec.sample = Some(json!({"cfg": cfg, "n_keys": keys.len(), "n_ops": hist.len(), "committed": committed, "history_head": brief, "vtime_ms": rec.vtime_ms}));
    }
    let _ = proxies;
    rec
}
