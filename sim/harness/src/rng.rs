//! One integer decides everything, through decoupled streams:
//! every decision is `mix(run_seed, stream_id, index)`.

#[inline]
pub fn mix64(mut z: u64) -> u64 {
    z = z.wrapping_add(0x9E37_79B9_7F4A_7C15);
    z = (z ^ (z >> 30)).wrapping_mul(0xBF58_476D_1CE4_E5B9);
    z = (z ^ (z >> 27)).wrapping_mul(0x94D0_49BB_1331_11EB);
    z ^ (z >> 31)
}

pub fn hash3(seed: u64, stream: u64, index: u64) -> u64 {
    mix64(mix64(mix64(seed) ^ stream.wrapping_mul(0xD6E8_FEB8_6659_FD93)) ^ index)
}

pub fn stream_id(name: &str) -> u64 {
    let mut h: u64 = 0xcbf2_9ce4_8422_2325;
    for b in name.bytes() {
        h ^= b as u64;
        h = h.wrapping_mul(0x0000_0100_0000_01B3);
    }
    h
}

/// A sequential PRNG over one (seed, stream) pair.
#[derive(Clone, Debug)]
pub struct Rng {
    seed: u64,
    stream: u64,
    idx: u64,
}

impl Rng {
    pub fn new(seed: u64, stream: &str) -> Self {
        Self {
            seed,
            stream: stream_id(stream),
            idx: 0,
        }
    }
    pub fn sub(&self, name: &str, n: u64) -> Rng {
        Rng {
            seed: hash3(self.seed, self.stream, stream_id(name) ^ mix64(n)),
            stream: stream_id(name),
            idx: 0,
        }
    }
    pub fn next(&mut self) -> u64 {
        let v = hash3(self.seed, self.stream, self.idx);
        self.idx += 1;
        v
    }
    /// uniform in 0..n (n>0)
    pub fn below(&mut self, n: u64) -> u64 {
        if n == 0 {
            return 0;
        }
        self.next() % n
    }
    pub fn range(&mut self, lo: u64, hi_incl: u64) -> u64 {
        lo + self.below(hi_incl - lo + 1)
    }
    pub fn chance(&mut self, num: u64, den: u64) -> bool {
        self.below(den) < num
    }
    pub fn pick<'a, T>(&mut self, v: &'a [T]) -> &'a T {
        &v[self.below(v.len() as u64) as usize]
    }
    pub fn bytes(&mut self, n: usize) -> Vec<u8> {
        let mut out = Vec::with_capacity(n);
        while out.len() < n {
            let v = self.next().to_le_bytes();
            for b in v {
                if out.len() < n {
                    out.push(b);
                }
            }
        }
        out
    }
    pub fn shuffle<T>(&mut self, v: &mut [T]) {
        for i in (1..v.len()).rev() {
            let j = self.below(i as u64 + 1) as usize;
            v.swap(i, j);
        }
    }
}

/// FNV-style running hash used for event traces.
#[derive(Clone, Copy, Debug)]
pub struct TraceHash(pub u64);
impl TraceHash {
    pub fn new() -> Self {
        TraceHash(0x1234_5678_9abc_def0)
    }
    pub fn add(&mut self, bytes: &[u8]) {
        let mut h = self.0;
        for b in bytes {
            h ^= *b as u64;
            h = h.wrapping_mul(0x0000_0100_0000_01B3);
        }
        self.0 = mix64(h);
    }
    pub fn add_u64(&mut self, v: u64) {
        self.0 = mix64(self.0 ^ v);
    }
}
