#!/usr/bin/env python3
"""Regenerates /verif/MANIFEST.json from the table below (kept in one place so it is always valid)."""
import json, subprocess
E1 = "E1 broker-sim"
CHECKS = {
 "C01": dict(engine=E1, cat="exploration", tech="deterministic simulation: seeded broker operation histories with failovers; partition/twin oracle after every operation, all views, limits 0-3",
   text="Seeded search over broker operation histories (real MemBrokerService) with interleaved failovers, partial commits, stale/duplicate/garbage commits; after EVERY operation every whole-cluster and per-proxy view under migration limits 0..3 is checked against an independent interval-tiling/twin model. Sampling, not proof.",
   note="Trusts the harness's interval-tiling reference (views.rs) and serde round trip; HTTP layer and ExternalHttpStorage are not exercised.", ref="§7 C01"),
 "C04": dict(engine=E1, cat="exploration", tech="deterministic simulation: seeded broker histories; per-proxy served-view epoch monotonicity and content-vs-epoch oracle after every operation",
   text="Same histories; before/after every operation, for every registered address and limits 0..3: global epoch non-decreasing, served epoch non-decreasing and strictly greater whenever canonicalised content differs.", note="Canonicalisation sorts nodes/peers so iteration order is not content.", ref="§7 C04"),
 "C06": dict(engine=E1, cat="exploration", tech="deterministic simulation with fault injection: failover at arbitrary points of seeded histories; before/after ownership diff against a promotion model",
   text="Failover injected at arbitrary points of histories (mid-migration, after earlier failovers/rebalances, repeated, with/without spares); diff of the cluster view before/after against the 'replica takes over, nothing else moves' model; migration re-issue (addresses + strictly newer epoch); allocation never uses failed/reported proxies.", note="Oracle only speaks when the harness model says the chunk partner is up.", ref="§7 C06"),
 "C10": dict(engine=E1, cat="exploration", tech="deterministic simulation: seeded resize chains drained in random commit order with failover/refused-request chaos; end-of-round balance oracle and bounded-termination liveness",
   text="Scaling chains (1..6 chunks up and down, 2-5 rounds) drained by committing tasks taken from the served (limited) view in random order with interleaved failovers, rebalances and requests that must be refused; end-of-round oracle: no pending migration, full stable partition, counts differ <=1, exactly trailing chunks slot-less and released; bounded number of commits (liveness).", note="auto_scale_node_number's TCP wait is stubbed: its two storage halves are driven separately.", ref="§7 C10"),
 "C12": dict(engine=E1, cat="exploration", tech="deterministic simulation: seeded histories over skewed host layouts; resource-accounting oracle after every operation, refused requests must leave no trace, panics = violation",
   text="Histories over skewed host/proxy layouts; after every operation: membership vs free pool exact complements, broker's own check passes, refused allocations leave the store byte-identical (modulo global epoch), new chunks span two hosts, replacement host rule; a panic/abort of the child is a violation.", note="Ordered mode gives every proxy its own host (StatefulSet assumption).", ref="§7 C12"),
 "C13": dict(engine="E1 broker-sim + E2 cluster-sim", cat="fault_enumeration", tech="deterministic simulation with crash-point enumeration: every prefix of each seeded history is a crash point; restart from that snapshot + epoch recovery with sampled installed-epoch distributions",
   text="For each seeded history EVERY prefix is enumerated as a crash point: the real service is restarted from that snapshot, the largest installed proxy epoch (sampled distribution over epochs actually served) is injected, recover_epoch runs, and every view served afterwards must exceed it and satisfy the partition oracle. One run in eight is a live E2 run: the broker of a running cluster (real coordinators, proxies, migrations, faults) is replaced by an instance restored from a 0-4 s old snapshot, the largest proxy epoch is collected over SimNet, recovery runs, and within 30 virtual s all reachable proxies must hold the recovered view.", note="fetch_max_epoch (TCP) is replaced by hook H7 (the harness collects UMCTL GETEPOCH over SimNet).", ref="§7 C13"),
 "C18": dict(engine=E1, cat="exploration", tech="deterministic simulation with clock control: seeded report/query/registration histories on a virtual clock; quorum-of-fresh-distinct-reporters model",
   text="Report/query/clock-jump/registration histories on the virtual wall clock (hook H3), 5 reporters, quorum 1..4, ttl 2/60 s with jumps at ttl-1/ttl/ttl+1; listed => registered and >= quorum distinct reporters with a report no older than ttl; re-registration clears.", note="One-directional oracle as the property is; boundary age == ttl accepted either way.", ref="§7 C18"),
 "C11": dict(engine="E4 shuttle-sim", cat="exploration", tech="deterministic simulation of thread interleavings: shuttle-controlled threads on the real TaskBlockingQueue switching at hooks before every atomic access; seeded random + PCT schedules; replayable schedule",
   text="Real BlockingMap/TaskBlockingQueue with stub inner and re-dispatch senders; 2-4 sender threads (all hints), 1-2 blockers, a backend thread; shuttle decides every interleaving at the granularity of individual atomic operations (H8 hooks). Oracle over the recorded history: no hand-over to the source inside (barrier observed, blocking lifted); exactly one terminal event per command; nothing stays queued; counter returns to zero.", note="Sequential consistency assumed (all accesses SeqCst; shuttle runs one thread at a time). Senders/backends are stubs; the queue, counters, CAS loop and crossbeam channel are real.", ref="§7 C11"),
 "C03": dict(engine="E2 cluster-sim", cat="exploration", tech="deterministic whole-system simulation: real broker+coordinator+proxies on a simulated network and Redis model; seeded delivery schedules; per-key linearizability check (WGL) of the client history + final placement oracle",
   text="Real broker, real coordinator loops and 2-6 real proxies around a Redis model on a simulated network with seeded per-message latencies; a cluster is scaled out/in by one chunk while 2-4 clients run 80-260 string/counter/list operations (incl. DEL/LPOP/RPOP, hot keys whose migration lock slot collides with quiet keys) through random proxies following MOVED. Oracle 1: every key's invoke/return history (global event numbers) is linearizable against a sequential register/list model. Oracle 2 after commit+quiescence: every key exists exactly once, on the broker-designated owner, with a value allowed by the linearizations; no copy anywhere else.", note="Message-level interleavings on a single-threaded runtime (thread-level races of the barrier are C11's). SimRedis is the Redis specification for these runs. Fault-free network by design: the property quantifies over interleavings.", ref="§7 C03"),
 "C19": dict(engine="E2 cluster-sim", cat="exploration", tech="deterministic whole-system simulation with fault injection (buggified PTTL replies, SCAN duplicates, virtual-clock expiry): every RESTORE observed at the Redis model is matched with the PTTL readings of its transfer",
   text="Same migration runs with a TTL key population (30 ms..1 h on the virtual clock, and persistent keys); every third run the source nodes answer PTTL with a buggified value {0,1,2,999,2^63-1,-1,malformed}. At the receiving SimRedis every successful RESTORE must be consistent with at least one PTTL reading of that transfer: -1 => ttl 0; p>=1 => 1<=ttl<=p; 0 => not persistent.", note="The three transfer paths are distinguished only by which component issued the PTTL (scan client vs. proxy backend); all are covered by the same oracle at the Redis model.", ref="§7 C19"),
 "C07": dict(engine="E2 cluster-sim", cat="exploration", tech="deterministic whole-system simulation with fault injection: message drop/duplicate/reset/stall on coordinator calls, coordinator crash/restart, proxy restart with empty state, unreachable proxies; safety over the recorded call log + bounded-liveness convergence oracle after faults stop",
   text="Real broker, 1-2 real coordinators (all four production loops), 4-8 real proxies. Within a 12 s fault window the plan injects directed and random message faults on coordinator->proxy and coordinator->broker calls, coordinator crashes at arbitrary instants, proxy restarts with empty state, proxies unreachable for 0.3-8 s (detector -> quorum -> failover). Safety: accepted SETCLUSTER/SETREPL epochs strictly increase per proxy incarnation, GETEPOCH never decreases, every migration committed at most once, destination updated before source inside a migration-sync round. Liveness: 30 virtual s after the last fault every reachable non-failed proxy reports the broker's epoch, advertises the broker's slot map, its Redis nodes have the broker's replication roles, and no finished migration is uncommitted.", note="Liveness bound B=30 s virtual (fault-free convergence < 3 s). The operator's re-registration of healed proxies is part of 'faults stop'. dst-before-src is judged only with migration_limit=1 where rounds cannot interleave.", ref="§7 C07"),
 "C02": dict(engine="E2 cluster-sim", cat="exploration", tech="deterministic whole-system simulation: metadata delivered by the real coordinator encoding path to real proxies; probe rounds from every start proxy judged against the broker's designated owners via the Redis model's execution log",
   text="Clusters of 1-3 chunks are driven through scaling, direct failovers (promoted replicas), rebalances and re-registrations with slow migrations in flight; metadata reaches the proxies only through the real coordinator sync (plain or compressed). Probe rounds (every range boundary +-1 plus random slots, occasionally all 16384, from EVERY start proxy, following MOVED) are judged when all proxies hold the broker's epoch before and after: the GET executed exactly once, on a node the broker designates (owner, or migration source/destination), no command for the key reached any other node, <=1 redirection for stable and <=3 for migrating slots.", note="Phases of the migration handshake vary across probes with virtual time; the destination-only-after-switch clause is checked in its weaker form (source or destination).", ref="§7 C02"),
 "C14": dict(engine="E2 cluster-sim", cat="exploration", tech="deterministic whole-system simulation with fault injection (a proxy lagging behind on metadata): CLUSTER NODES/SLOTS snapshots of every proxy compared with each other and with the routing observed by probes",
   text="Same runs, without requiring cluster-wide sync, plus plans in which one proxy cannot be reached by the coordinator for 2.5-7 s (long PRECHECK windows). Per proxy and round: INFO/NODES/SLOTS/NODES snapshot, probes, snapshot again; judged when unchanged: no slot listed twice, NODES == SLOTS, a slot that is not advertised is not served either, a non-migrating slot (by the proxy's own metadata) is advertised at the proxy itself iff it executes the probe and otherwise at the MOVED target, on the source/destination proxies the same holds for migrating slots, bystanders advertise a migrating slot at its source or destination only. Both NODES versions (per proxy).", note="For bystanders the state of the handshake is unknowable; either side is accepted (weaker than a global reading of the property, sound).", ref="§7 C14"),
}
NOT_APPLICABLE = {
 "C02": "not yet built in this tree: cluster-sim (E2) check under construction; see DESIGN §11.1",
 "C03": "not yet built in this tree: cluster-sim (E2) check under construction",
 "C05": "not yet built in this tree",
 "C07": "not yet built in this tree",
 "C08": "not yet built in this tree",
 "C09": "not yet built in this tree",
 "C11": "not yet built in this tree",
 "C14": "not yet built in this tree",
 "C15": "not yet built in this tree",
 "C16": "not yet built in this tree",
 "C17": "not yet built in this tree",
 "C19": "not yet built in this tree",
 "C20": "not yet built in this tree",
}
def main():
    commits = subprocess.run(["git","-C","/repo","log","--format=%h %s"],capture_output=True,text=True).stdout.splitlines()
    hooks=[c.split()[0] for c in commits if c.split(' ',1)[1].startswith("verif hook")]
    checks=[]
    for pid in sorted(CHECKS):
        c=CHECKS[pid]
        checks.append(dict(property_id=pid, quick_cmd=f"./bin/check {pid} quick", thorough_cmd=f"./bin/check {pid} thorough",
            evidence_file=f"/verif/evidence/{pid}.json", replay_cmd_template="./bin/check --replay {path}", engine=c["engine"],
            level_claimed=dict(category=c["cat"], text=c["text"], design_ref=c["ref"]), level_note=c["note"], technique=c["tech"]))
    engines={}
    for pid,c in CHECKS.items():
        engines.setdefault(c["engine"],[]).append(pid)
    m=dict(version=1,
      setup_cmd="./bin/check --build",
      hooks=dict(guard="--cfg undermoon_verif (rustc cfg; set in /verif/sim/.cargo/config.toml)",
                 enable="cd /verif/sim && cargo build --profile sim --offline  (shadow manifest sim/shadow builds /repo/src/lib.rs with RUSTFLAGS=--cfg undermoon_verif and tokio test-util)",
                 baseline_off_cmd="cd /repo && cargo test --workspace --no-fail-fast --offline",
                 source_commits=hooks, add_only=True),
      engines=[dict(name=k,path="/verif/sim/harness",serves_properties=sorted(v),kind_free_text="deterministic simulation with fault injection; one forked child per run; seed -> plan -> execution; minimised replay files") for k,v in sorted(engines.items())],
      checks=checks,
      notes="Exit codes: 0 held (KNOWN-FINDING lines possible), 1 VIOLATION, 2 harness/build error. VERIF_SEED, VERIF_TIER, VERIF_RUNS, VERIF_CAP_S, VERIF_WORKERS honoured. Known findings: /verif/known_findings.json.",
      not_applicable=[dict(property_id=k,reason=v) for k,v in sorted(NOT_APPLICABLE.items()) if k not in CHECKS])
    json.dump(m,open("/verif/MANIFEST.json","w"),indent=1)
    print("checks:",len(checks),"not_applicable:",len(m["not_applicable"]))
main()
