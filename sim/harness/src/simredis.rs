//! SimRedis — an executable reference model of the subset of Redis that the
//! system and the workloads use. It *is* the specification of Redis for the
//! simulated runs (DESIGN §2.4, §11.3). Commands execute atomically at delivery
//! time in delivery order; every executed command is recorded.

use crate::rng::mix64;
use std::collections::{BTreeMap, VecDeque};
use undermoon::protocol::{Array, BulkStr, Resp, RespVec};

#[derive(Clone, Debug, PartialEq)]
pub enum Val {
    Str(Vec<u8>),
    List(VecDeque<Vec<u8>>),
}

#[derive(Clone, Debug)]
pub struct Entry {
    pub val: Val,
    pub expire_at: Option<u64>,
}

#[derive(Clone, Debug)]
pub struct ExecRec {
    pub seq: u64,
    pub at_ms: u64,
    pub conn: u64,
    pub cmd: Vec<Vec<u8>>,
    pub reply: String,
}

pub struct SimRedis {
    pub addr: String,
    pub data: BTreeMap<Vec<u8>, Entry>,
    pub slaveof: Option<String>,
    pub log: Vec<ExecRec>,
    pub keep_log: bool,
    pub scan_salt: u64,
    /// buggify: answer PTTL with this value for keys that exist (C19)
    pub pttl_override: Option<String>,
    /// buggify: SCAN returns some keys twice
    pub scan_dup: bool,
    pub counters: BTreeMap<&'static str, u64>,
}

fn bulk(b: Vec<u8>) -> RespVec {
    Resp::Bulk(BulkStr::Str(b))
}
fn nil() -> RespVec {
    Resp::Bulk(BulkStr::Nil)
}
fn int(i: i64) -> RespVec {
    Resp::Integer(i.to_string().into_bytes())
}
fn ok() -> RespVec {
    Resp::Simple(b"OK".to_vec())
}
fn err(s: &str) -> RespVec {
    Resp::Error(s.as_bytes().to_vec())
}
fn wrongtype() -> RespVec {
    err("WRONGTYPE Operation against a key holding the wrong kind of value")
}

pub fn resp_brief(r: &RespVec) -> String {
    match r {
        Resp::Simple(s) => format!("+{}", String::from_utf8_lossy(s)),
        Resp::Error(s) => format!("-{}", String::from_utf8_lossy(s)),
        Resp::Integer(s) => format!(":{}", String::from_utf8_lossy(s)),
        Resp::Bulk(BulkStr::Nil) => "$nil".to_string(),
        Resp::Bulk(BulkStr::Str(s)) => {
            if s.len() > 48 {
                format!("${}b:{}..", s.len(), String::from_utf8_lossy(&s[..24]))
            } else {
                format!("${}", String::from_utf8_lossy(s))
            }
        }
        Resp::Arr(Array::Nil) => "*nil".to_string(),
        Resp::Arr(Array::Arr(v)) => format!("*[{}]", v.iter().map(resp_brief).collect::<Vec<_>>().join(",")),
    }
}

fn parse_i64(b: &[u8]) -> Option<i64> {
    std::str::from_utf8(b).ok()?.parse::<i64>().ok()
}

const DUMP_MAGIC: &[u8] = b"SIMDUMP1";

fn dump_val(v: &Val) -> Vec<u8> {
    let mut out = DUMP_MAGIC.to_vec();
    match v {
        Val::Str(s) => {
            out.push(b'S');
            out.extend_from_slice(&(s.len() as u32).to_le_bytes());
            out.extend_from_slice(s);
        }
        Val::List(l) => {
            out.push(b'L');
            out.extend_from_slice(&(l.len() as u32).to_le_bytes());
            for e in l {
                out.extend_from_slice(&(e.len() as u32).to_le_bytes());
                out.extend_from_slice(e);
            }
        }
    }
    // a trailing checksum, as Redis dumps have
    let mut h = 0u64;
    for b in out.iter() {
        h = mix64(h ^ *b as u64);
    }
    out.extend_from_slice(&h.to_le_bytes());
    out
}

fn undump(b: &[u8]) -> Option<Val> {
    if b.len() < DUMP_MAGIC.len() + 1 + 4 + 8 || &b[..DUMP_MAGIC.len()] != DUMP_MAGIC {
        return None;
    }
    let body = &b[..b.len() - 8];
    let mut h = 0u64;
    for x in body.iter() {
        h = mix64(h ^ *x as u64);
    }
    if h.to_le_bytes() != b[b.len() - 8..] {
        return None;
    }
    let mut p = DUMP_MAGIC.len();
    let ty = body[p];
    p += 1;
    let rd32 = |p: &mut usize| -> Option<usize> {
        let v = u32::from_le_bytes(body.get(*p..*p + 4)?.try_into().ok()?) as usize;
        *p += 4;
        Some(v)
    };
    match ty {
        b'S' => {
            let n = rd32(&mut p)?;
            Some(Val::Str(body.get(p..p + n)?.to_vec()))
        }
        b'L' => {
            let n = rd32(&mut p)?;
            let mut l = VecDeque::new();
            for _ in 0..n {
                let m = rd32(&mut p)?;
                l.push_back(body.get(p..p + m)?.to_vec());
                p += m;
            }
            Some(Val::List(l))
        }
        _ => None,
    }
}

impl SimRedis {
    pub fn new(addr: String, scan_salt: u64) -> Self {
        Self {
            addr,
            data: BTreeMap::new(),
            slaveof: None,
            log: vec![],
            keep_log: true,
            scan_salt,
            pttl_override: None,
            scan_dup: false,
            counters: BTreeMap::new(),
        }
    }

    fn count(&mut self, k: &'static str) {
        *self.counters.entry(k).or_insert(0) += 1;
    }

    fn expire_if_needed(&mut self, key: &[u8], now: u64) {
        let dead = match self.data.get(key) {
            Some(e) => e.expire_at.map(|t| t <= now).unwrap_or(false),
            None => false,
        };
        if dead {
            self.data.remove(key);
        }
    }

    pub fn live_keys(&mut self, now: u64) -> Vec<Vec<u8>> {
        let dead: Vec<Vec<u8>> = self.data.iter().filter(|(_, e)| e.expire_at.map(|t| t <= now).unwrap_or(false)).map(|(k, _)| k.clone()).collect();
        for k in dead {
            self.data.remove(&k);
        }
        self.data.keys().cloned().collect()
    }

    pub fn get_entry(&mut self, key: &[u8], now: u64) -> Option<Entry> {
        self.expire_if_needed(key, now);
        self.data.get(key).cloned()
    }

    pub fn exec(&mut self, now: u64, seq: u64, conn: u64, cmd: &[Vec<u8>]) -> RespVec {
        let reply = self.exec_inner(now, cmd);
        if self.keep_log {
            self.log.push(ExecRec {
                seq,
                at_ms: now,
                conn,
                cmd: cmd.to_vec(),
                reply: resp_brief(&reply),
            });
        }
        reply
    }

    fn str_of(&mut self, key: &[u8], now: u64) -> Result<Option<Vec<u8>>, RespVec> {
        self.expire_if_needed(key, now);
        match self.data.get(key) {
            None => Ok(None),
            Some(Entry { val: Val::Str(s), .. }) => Ok(Some(s.clone())),
            Some(_) => Err(wrongtype()),
        }
    }

    fn set_str(&mut self, key: &[u8], v: Vec<u8>, expire_at: Option<u64>, keep_ttl: bool) {
        let old_exp = if keep_ttl { self.data.get(key).and_then(|e| e.expire_at) } else { None };
        self.data.insert(
            key.to_vec(),
            Entry {
                val: Val::Str(v),
                expire_at: expire_at.or(old_exp),
            },
        );
    }

    fn exec_inner(&mut self, now: u64, cmd: &[Vec<u8>]) -> RespVec {
        if cmd.is_empty() {
            return err("ERR empty command");
        }
        let name = String::from_utf8_lossy(&cmd[0]).to_uppercase();
        let argc = cmd.len();
        macro_rules! need {
            ($c:expr) => {
                if !($c) {
                    return err(&format!("ERR wrong number of arguments for '{}' command", name.to_lowercase()));
                }
            };
        }
        match name.as_str() {
            "PING" => {
                if argc > 1 {
                    bulk(cmd[1].clone())
                } else {
                    Resp::Simple(b"PONG".to_vec())
                }
            }
            "ECHO" => {
                need!(argc == 2);
                bulk(cmd[1].clone())
            }
            "SELECT" | "READONLY" | "AUTH" => ok(),
            "CLIENT" | "CONFIG" => ok(),
            "COMMAND" => Resp::Arr(Array::Arr(vec![])),
            "INFO" => bulk(b"# Replication\r\nrole:master\r\n".to_vec()),
            "SLAVEOF" | "REPLICAOF" => {
                need!(argc == 3);
                let a = String::from_utf8_lossy(&cmd[1]).to_uppercase();
                if a == "NO" {
                    self.slaveof = None;
                } else {
                    self.slaveof = Some(format!("{}:{}", String::from_utf8_lossy(&cmd[1]), String::from_utf8_lossy(&cmd[2])));
                }
                self.count("slaveof");
                ok()
            }
            "GET" => {
                need!(argc == 2);
                match self.str_of(&cmd[1], now) {
                    Ok(Some(v)) => bulk(v),
                    Ok(None) => nil(),
                    Err(e) => e,
                }
            }
            "STRLEN" => {
                need!(argc == 2);
                match self.str_of(&cmd[1], now) {
                    Ok(Some(v)) => int(v.len() as i64),
                    Ok(None) => int(0),
                    Err(e) => e,
                }
            }
            "SET" => {
                need!(argc >= 3);
                let mut nx = false;
                let mut xx = false;
                let mut keepttl = false;
                let mut exp: Option<u64> = None;
                let mut i = 3;
                while i < argc {
                    let o = String::from_utf8_lossy(&cmd[i]).to_uppercase();
                    match o.as_str() {
                        "NX" => nx = true,
                        "XX" => xx = true,
                        "KEEPTTL" => keepttl = true,
                        "EX" | "PX" => {
                            let v = match cmd.get(i + 1).and_then(|b| parse_i64(b)) {
                                Some(v) if v > 0 => v as u64,
                                _ => return err("ERR invalid expire time in 'set' command"),
                            };
                            exp = Some(now + if o == "EX" { v * 1000 } else { v });
                            i += 1;
                        }
                        _ => return err("ERR syntax error"),
                    }
                    i += 1;
                }
                self.expire_if_needed(&cmd[1], now);
                let exists = self.data.contains_key(&cmd[1]);
                if (nx && exists) || (xx && !exists) {
                    return nil();
                }
                self.set_str(&cmd[1], cmd[2].clone(), exp, keepttl);
                ok()
            }
            "SETNX" => {
                need!(argc == 3);
                self.expire_if_needed(&cmd[1], now);
                if self.data.contains_key(&cmd[1]) {
                    int(0)
                } else {
                    self.set_str(&cmd[1], cmd[2].clone(), None, false);
                    int(1)
                }
            }
            "SETEX" | "PSETEX" => {
                need!(argc == 4);
                let v = match parse_i64(&cmd[2]) {
                    Some(v) if v > 0 => v as u64,
                    _ => return err("ERR invalid expire time"),
                };
                let ms = if name == "SETEX" { v * 1000 } else { v };
                self.set_str(&cmd[1], cmd[3].clone(), Some(now + ms), false);
                ok()
            }
            "GETSET" => {
                need!(argc == 3);
                match self.str_of(&cmd[1], now) {
                    Ok(old) => {
                        self.set_str(&cmd[1], cmd[2].clone(), None, false);
                        old.map(bulk).unwrap_or_else(nil)
                    }
                    Err(e) => e,
                }
            }
            "APPEND" => {
                need!(argc == 3);
                match self.str_of(&cmd[1], now) {
                    Ok(old) => {
                        let mut v = old.unwrap_or_default();
                        v.extend_from_slice(&cmd[2]);
                        let n = v.len();
                        self.set_str(&cmd[1], v, None, true);
                        int(n as i64)
                    }
                    Err(e) => e,
                }
            }
            "INCR" | "DECR" | "INCRBY" => {
                need!(argc >= 2);
                let delta = match name.as_str() {
                    "INCR" => 1,
                    "DECR" => -1,
                    _ => match cmd.get(2).and_then(|b| parse_i64(b)) {
                        Some(d) => d,
                        None => return err("ERR value is not an integer or out of range"),
                    },
                };
                match self.str_of(&cmd[1], now) {
                    Ok(old) => {
                        let cur = match old {
                            None => 0,
                            Some(b) => match parse_i64(&b) {
                                Some(v) => v,
                                None => return err("ERR value is not an integer or out of range"),
                            },
                        };
                        let n = match cur.checked_add(delta) {
                            Some(n) => n,
                            None => return err("ERR increment or decrement would overflow"),
                        };
                        self.set_str(&cmd[1], n.to_string().into_bytes(), None, true);
                        int(n)
                    }
                    Err(e) => e,
                }
            }
            "MGET" => {
                need!(argc >= 2);
                let mut out = vec![];
                for k in &cmd[1..] {
                    out.push(match self.str_of(k, now) {
                        Ok(Some(v)) => bulk(v),
                        _ => nil(),
                    });
                }
                Resp::Arr(Array::Arr(out))
            }
            "MSET" => {
                need!(argc >= 3 && argc % 2 == 1);
                for kv in cmd[1..].chunks(2) {
                    self.set_str(&kv[0], kv[1].clone(), None, false);
                }
                ok()
            }
            "MSETNX" => {
                need!(argc >= 3 && argc % 2 == 1);
                for kv in cmd[1..].chunks(2) {
                    self.expire_if_needed(&kv[0], now);
                    if self.data.contains_key(&kv[0]) {
                        return int(0);
                    }
                }
                for kv in cmd[1..].chunks(2) {
                    self.set_str(&kv[0], kv[1].clone(), None, false);
                }
                int(1)
            }
            "DEL" | "UNLINK" => {
                need!(argc >= 2);
                let mut n = 0;
                for k in &cmd[1..] {
                    self.expire_if_needed(k, now);
                    if self.data.remove(k).is_some() {
                        n += 1;
                    }
                }
                int(n)
            }
            "EXISTS" => {
                need!(argc >= 2);
                let mut n = 0;
                for k in &cmd[1..] {
                    self.expire_if_needed(k, now);
                    if self.data.contains_key(k) {
                        n += 1;
                    }
                }
                int(n)
            }
            "TYPE" => {
                need!(argc == 2);
                self.expire_if_needed(&cmd[1], now);
                Resp::Simple(
                    match self.data.get(&cmd[1]).map(|e| &e.val) {
                        None => "none",
                        Some(Val::Str(_)) => "string",
                        Some(Val::List(_)) => "list",
                    }
                    .as_bytes()
                    .to_vec(),
                )
            }
            "LPUSH" | "RPUSH" => {
                need!(argc >= 3);
                self.expire_if_needed(&cmd[1], now);
                let e = self.data.entry(cmd[1].clone()).or_insert(Entry {
                    val: Val::List(VecDeque::new()),
                    expire_at: None,
                });
                match &mut e.val {
                    Val::List(l) => {
                        for v in &cmd[2..] {
                            if name == "LPUSH" {
                                l.push_front(v.clone());
                            } else {
                                l.push_back(v.clone());
                            }
                        }
                        int(l.len() as i64)
                    }
                    _ => wrongtype(),
                }
            }
            "LPOP" | "RPOP" => {
                need!(argc == 2);
                self.expire_if_needed(&cmd[1], now);
                let (r, empty) = match self.data.get_mut(&cmd[1]) {
                    None => return nil(),
                    Some(Entry { val: Val::List(l), .. }) => {
                        let v = if name == "LPOP" { l.pop_front() } else { l.pop_back() };
                        (v.map(bulk).unwrap_or_else(nil), l.is_empty())
                    }
                    Some(_) => return wrongtype(),
                };
                if empty {
                    self.data.remove(&cmd[1]);
                }
                r
            }
            "BLPOP" | "BRPOP" => {
                // only used with keys that exist or timeout semantics irrelevant: immediate variant
                need!(argc >= 3);
                for k in &cmd[1..argc - 1] {
                    self.expire_if_needed(k, now);
                    let (r, empty) = match self.data.get_mut(k) {
                        Some(Entry { val: Val::List(l), .. }) => {
                            let v = if name == "BLPOP" { l.pop_front() } else { l.pop_back() };
                            (v, l.is_empty())
                        }
                        _ => (None, false),
                    };
                    if empty {
                        self.data.remove(k);
                    }
                    if let Some(v) = r {
                        return Resp::Arr(Array::Arr(vec![bulk(k.clone()), bulk(v)]));
                    }
                }
                Resp::Arr(Array::Nil)
            }
            "LLEN" => {
                need!(argc == 2);
                self.expire_if_needed(&cmd[1], now);
                match self.data.get(&cmd[1]).map(|e| &e.val) {
                    None => int(0),
                    Some(Val::List(l)) => int(l.len() as i64),
                    Some(_) => wrongtype(),
                }
            }
            "LRANGE" => {
                need!(argc == 4);
                self.expire_if_needed(&cmd[1], now);
                match self.data.get(&cmd[1]).map(|e| &e.val) {
                    None => Resp::Arr(Array::Arr(vec![])),
                    Some(Val::List(l)) => Resp::Arr(Array::Arr(l.iter().cloned().map(bulk).collect())),
                    Some(_) => wrongtype(),
                }
            }
            "EXPIRE" | "PEXPIRE" => {
                need!(argc == 3);
                let v = match parse_i64(&cmd[2]) {
                    Some(v) => v,
                    None => return err("ERR value is not an integer or out of range"),
                };
                self.expire_if_needed(&cmd[1], now);
                if !self.data.contains_key(&cmd[1]) {
                    return int(0);
                }
                if v <= 0 {
                    self.data.remove(&cmd[1]);
                    return int(1);
                }
                let ms = if name == "EXPIRE" { (v as u64).saturating_mul(1000) } else { v as u64 };
                if let Some(e) = self.data.get_mut(&cmd[1]) {
                    e.expire_at = Some(now.saturating_add(ms));
                }
                int(1)
            }
            "PERSIST" => {
                need!(argc == 2);
                self.expire_if_needed(&cmd[1], now);
                match self.data.get_mut(&cmd[1]) {
                    Some(e) if e.expire_at.is_some() => {
                        e.expire_at = None;
                        int(1)
                    }
                    _ => int(0),
                }
            }
            "TTL" | "PTTL" => {
                need!(argc == 2);
                self.expire_if_needed(&cmd[1], now);
                self.count("pttl");
                match self.data.get(&cmd[1]) {
                    None => int(-2),
                    Some(e) => {
                        if name == "PTTL" {
                            if let Some(o) = self.pttl_override.clone() {
                                self.count("pttl_buggified");
                                return match parse_i64(o.as_bytes()) {
                                    Some(_) => Resp::Integer(o.into_bytes()),
                                    None => bulk(o.into_bytes()),
                                };
                            }
                        }
                        match e.expire_at {
                            None => int(-1),
                            Some(t) => {
                                let ms = t.saturating_sub(now);
                                if name == "PTTL" {
                                    int(ms as i64)
                                } else {
                                    int(((ms + 500) / 1000) as i64)
                                }
                            }
                        }
                    }
                }
            }
            "DUMP" => {
                need!(argc == 2);
                self.expire_if_needed(&cmd[1], now);
                self.count("dump");
                match self.data.get(&cmd[1]) {
                    None => nil(),
                    Some(e) => bulk(dump_val(&e.val)),
                }
            }
            "RESTORE" => {
                need!(argc >= 4);
                let ttl = match parse_i64(&cmd[2]) {
                    Some(t) if t >= 0 => t as u64,
                    _ => return err("ERR Invalid TTL value, must be >= 0"),
                };
                let mut replace = false;
                for o in &cmd[4..] {
                    match String::from_utf8_lossy(o).to_uppercase().as_str() {
                        "REPLACE" => replace = true,
                        "ABSTTL" => return err("ERR ABSTTL not supported by the model"),
                        _ => return err("ERR syntax error"),
                    }
                }
                self.expire_if_needed(&cmd[1], now);
                self.count("restore");
                if self.data.contains_key(&cmd[1]) && !replace {
                    self.count("restore_busykey");
                    return err("BUSYKEY Target key name already exists.");
                }
                let val = match undump(&cmd[3]) {
                    Some(v) => v,
                    None => return err("ERR DUMP payload version or checksum are wrong"),
                };
                self.data.insert(
                    cmd[1].clone(),
                    Entry {
                        val,
                        expire_at: if ttl == 0 { None } else { Some(now + ttl) },
                    },
                );
                ok()
            }
            "SCAN" => {
                need!(argc >= 2);
                let cursor = match parse_i64(&cmd[1]) {
                    Some(c) if c >= 0 => c as u64,
                    _ => return err("ERR invalid cursor"),
                };
                let mut count = 10u64;
                let mut i = 2;
                while i + 1 < argc {
                    if String::from_utf8_lossy(&cmd[i]).to_uppercase() == "COUNT" {
                        count = parse_i64(&cmd[i + 1]).unwrap_or(10).max(1) as u64;
                    }
                    i += 2;
                }
                self.count("scan");
                const BUCKETS: u64 = 64;
                let keys = self.live_keys(now);
                let salt = self.scan_salt;
                let bucket_of = |k: &Vec<u8>| -> u64 {
                    let mut h = salt;
                    for b in k.iter() {
                        h = mix64(h ^ *b as u64);
                    }
                    h % BUCKETS
                };
                let mut out: Vec<Vec<u8>> = vec![];
                let mut b = cursor;
                while b < BUCKETS && (out.len() as u64) < count {
                    for k in keys.iter() {
                        if bucket_of(k) == b {
                            out.push(k.clone());
                        }
                    }
                    b += 1;
                }
                if self.scan_dup {
                    if let Some(first) = out.first().cloned() {
                        out.push(first);
                    }
                }
                let next = if b >= BUCKETS { 0 } else { b };
                Resp::Arr(Array::Arr(vec![
                    bulk(next.to_string().into_bytes()),
                    Resp::Arr(Array::Arr(out.into_iter().map(bulk).collect())),
                ]))
            }
            "EVAL" => {
                // minimal: EVAL script numkeys key.. arg..: returns the first argument or nil
                need!(argc >= 3);
                nil()
            }
            "DBSIZE" => int(self.live_keys(now).len() as i64),
            _ => err(&format!("ERR unknown command '{}'", name)),
        }
    }
}
