//! E2 "control" mode — the control plane under message faults, coordinator
//! crashes, proxy restarts with empty state, unreachable proxies and (C13) broker
//! restarts from an older snapshot followed by epoch recovery.
//!
//! C07: safety while faults flow + bounded convergence after they stop.
//! C13 (live part): after broker state loss + epoch recovery every reachable proxy
//! adopts the recovered view.

use crate::broker::{node_addrs, proxy_addr, Cfg as BrokerCfg, INJECTED_MAX_EPOCH};
use crate::cluster::{bulk_cmd, resp_to_strings, run_sim, spawn_coordinator, spawn_proxy, spawn_redis_nodes, BrokerHolder, Client, Coordinator, ProxyParams, SimProxy};
use crate::framework::{Check, Meta, RunRecord, Tier, Violation};
use crate::rng::Rng;
use crate::sandbox::ChildLimits;
use crate::simnet::{FaultDirective, FaultKind, Net};
use serde_json::{json, Value};
use std::collections::{BTreeMap, BTreeSet};
use std::sync::atomic::Ordering;
use std::sync::Arc;
use std::time::Duration;
use undermoon::broker::MetaStore;
use undermoon::common::cluster::Role;
use undermoon::protocol::{Array, BulkStr, Resp, RespVec};

pub struct ControlCheck {
    pub prop: &'static str,
}

const FAULT_WINDOW_MS: u64 = 12_000;
const LIVENESS_BOUND_MS: u64 = 30_000;

impl Check for ControlCheck {
    fn id(&self) -> &'static str {
        self.prop
    }
    fn engine(&self) -> &'static str {
        "E2 cluster-sim (control)"
    }
    fn budget(&self, tier: Tier) -> (u64, Duration) {
        match tier {
            Tier::Quick => (300, Duration::from_secs(60)),
            Tier::Thorough => (20_000, Duration::from_secs(1500)),
        }
    }
    fn gen_plan(&self, seed: u64, index: u64, _tier: Tier) -> Value {
        let c13 = self.prop == "C13";
        let mut rng = Rng::new(seed, "plan");
        let level = index % 3; // 0 fault-free, 1 light, 2 heavy
        // C13, every fourth run: "stranded" variant — no spare proxy, so a failover leaves the failed proxy a
        // cluster member (replica roles, marked failed); it heals WITHOUT being re-registered and the broker
        // restarts from a snapshot afterwards: the property's "all reachable proxies" includes this one.
        let stranded = c13 && (index / 8) % 3 == 1; // the composite hands this part every 8th index
        let start_chunks = if stranded { 2 } else { rng.range(1, 2) as usize };
        let spare = if stranded { 0 } else { rng.range(2, 4) as usize };
        let n_proxies = 2 * start_chunks + spare;
        let n_coord = *rng.pick(&[1usize, 1, 2]);
        let mut ops = vec![];
        // one scaling request so that migrations finish and must be committed
        let scale_up = (rng.chance(2, 3) || start_chunks == 1) && !stranded;
        ops.push(json!({"at": rng.range(200, 4000), "op": "scale", "up": scale_up}));
        if level > 0 {
            let n = if level == 1 { rng.range(1, 2) } else { rng.range(2, 5) };
            for _ in 0..n {
                let kind = rng.below(if c13 { 5 } else { 4 });
                let at = rng.range(100, FAULT_WINDOW_MS - 2000);
                let op = match kind {
                    0 => json!({"at": at, "op": "proxy_down", "p": rng.below((2 * start_chunks) as u64), "for_ms": *rng.pick(&[300u64, 1500, 4000, 8000])}),
                    1 => json!({"at": at, "op": "restart_proxy", "p": rng.below(n_proxies as u64)}),
                    2 => json!({"at": at, "op": "crash_coord", "c": rng.below(n_coord as u64), "restart_after": *rng.pick(&[0u64, 200, 1500, 4000])}),
                    3 => json!({"at": at, "op": "restart_proxy", "p": rng.below(n_proxies as u64)}),
                    _ => json!({"at": at, "op": "broker_restart", "age": rng.range(0, 8)}),
                };
                ops.push(op);
            }
        }
        if stranded {
            let at = rng.range(300, 3000);
            let for_ms = *rng.pick(&[3000u64, 4000, 5000]);
            ops.push(json!({"at": at, "op": "proxy_down", "p": rng.below((2 * start_chunks) as u64), "for_ms": for_ms, "no_reregister": true}));
            ops.push(json!({"at": at + for_ms + rng.range(200, 1500), "op": "broker_restart", "age": rng.range(0, 3)}));
        }
        if c13 && !ops.iter().any(|o| o["op"] == "broker_restart") {
            ops.push(json!({"at": rng.range(500, FAULT_WINDOW_MS - 2000), "op": "broker_restart", "age": rng.range(0, 8)}));
        }
        let mut faults = vec![];
        if level > 0 {
            let n = if level == 1 { rng.range(1, 3) } else { rng.range(3, 10) };
            for _ in 0..n {
                faults.push(json!({
                    "src": *rng.pick(&["coord", "coord", "coord:0", "coord:0/msync", "coord:0/psync"]),
                    "dst": if rng.chance(1, 3) { "broker".to_string() } else { String::new() },
                    "nth": rng.below(120),
                    "kind": *rng.pick(&["drop_request", "drop_reply", "duplicate", "reset", "stall"]),
                }));
            }
        }
        json!({
            "engine": "cluster", "mode": "control", "seed": seed,
            "cfg": {
                "start_chunks": start_chunks, "n_proxies": n_proxies, "n_coord": n_coord,
                "max_latency_ms": *rng.pick(&[1u64, 2, 4, 8]),
                "migration_limit": *rng.pick(&[0u64, 1, 1, 2]),
                "compress_meta": rng.chance(1, 2),
                "quorum": 1,
                "level": level,
                "stranded": stranded,
                "chaos_pm": if level == 2 { *rng.pick(&[0u64, 20, 60]) } else { 0 },
                "n_keys": rng.range(4, 24),
            },
            "ops": ops,
            "faults": faults,
        })
    }
    fn execute(&self, plan: &Value, want_sample: bool) -> RunRecord {
        crate::broker::install_hooks();
        INJECTED_MAX_EPOCH.store(u64::MAX, Ordering::SeqCst);
        let plan = plan.clone();
        let prop = self.prop;
        run_sim(async move { run_control(prop, &plan, want_sample).await })
    }
    fn limits(&self, _plan: Option<&Value>) -> ChildLimits {
        ChildLimits { wall_timeout: Duration::from_secs(180), rlimit_as: None, stack_bytes: 32 << 20 }
    }
    fn shrink_arrays(&self) -> Vec<&'static str> {
        vec!["/ops", "/faults"]
    }
    fn minimise_budget(&self, tier: Tier) -> u64 {
        match tier {
            Tier::Quick => 60,
            Tier::Thorough => 200,
        }
    }
    fn meta(&self) -> Meta {
        Meta {
            level: "exploration",
            rule: if self.prop == "C07" {
                "plan = 4-8 real proxies, 1-2 real coordinators (4 production loops each), one scaling request, and within a 12 s fault window: proxies unreachable for 0.3-8 s, proxies restarted with empty state, coordinator crash/restart at arbitrary instants, directed message faults on coordinator calls (drop request, drop reply, duplicate, reset, stall) plus per-mille chaos; one third of the runs fault-free. After the window everything heals and the run continues for B = 30 virtual s. Non-trivial = >=1 migration was committed and >=1 fault fired (or the run is a fault-free baseline with a commit); distinct = distinct (delivery schedule, end state)."
            } else {
                "same control-plane runs with >=1 broker restart from a snapshot 0-4 s old (broker snapshots are taken every 500 ms), followed by epoch recovery with the largest epoch collected from reachable proxies; non-trivial = >=1 broker restart happened after the first metadata change."
            },
            real: vec!["broker::MemBrokerService", "coordinator::CoordinatorService (detect, proxy sync, migration sync, failure handler loops)", "proxy::* and migration::* and replication::*", "common::proto encodings (plain and compressed)"],
            stubs: vec!["TCP (SimNet)", "Redis (SimRedis)", "HTTP coordinator->broker hop", "fetch_max_epoch TCP collection (harness collects UMCTL GETEPOCH over SimNet, hook H7 injects it)"],
            assumptions: vec!["liveness is only judged after the plan's last fault/heal: B = 30 virtual seconds (fault-free convergence observed < 3 s)", "at most one proxy of a chunk is made unreachable at a time; spare proxies exist"],
            fault_kinds: vec!["msg_drop_request", "msg_drop_reply", "msg_duplicate", "conn_reset", "conn_stall", "connect_refused", "msg_lost_unreachable", "proxy_unreachable", "proxy_restart_empty", "coordinator_crash", "coordinator_restart", "broker_restart_from_snapshot"],
        }
    }
}

async fn umctl(cl: &mut Client, addr: &str, parts: &[&[u8]]) -> Result<RespVec, ()> {
    cl.call_one(addr, &bulk_cmd(parts)).await
}

fn parse_epoch(r: &RespVec) -> Option<u64> {
    match r {
        Resp::Integer(i) | Resp::Simple(i) => std::str::from_utf8(i).ok()?.parse().ok(),
        Resp::Bulk(BulkStr::Str(s)) => std::str::from_utf8(s).ok()?.parse().ok(),
        _ => None,
    }
}

/// (start, end, "ip:port") triples from CLUSTER SLOTS
fn parse_cluster_slots(r: &RespVec) -> Option<BTreeSet<(usize, usize, String)>> {
    let mut out = BTreeSet::new();
    if let Resp::Arr(Array::Arr(items)) = r {
        for it in items {
            if let Resp::Arr(Array::Arr(f)) = it {
                let s = parse_epoch(f.first()?)? as usize;
                let e = parse_epoch(f.get(1)?)? as usize;
                if let Some(Resp::Arr(Array::Arr(n))) = f.get(2) {
                    let ip = resp_to_strings(n.first()?).first()?.clone();
                    let port = resp_to_strings(n.get(1)?).first()?.clone();
                    out.insert((s, e, format!("{}:{}", ip, port)));
                } else {
                    return None;
                }
            } else {
                return None;
            }
        }
        Some(out)
    } else {
        None
    }
}

fn merge_ranges(v: &BTreeSet<(usize, usize, String)>) -> BTreeSet<(usize, usize, String)> {
    let mut by: BTreeMap<String, Vec<(usize, usize)>> = BTreeMap::new();
    for (s, e, a) in v.iter() {
        by.entry(a.clone()).or_default().push((*s, *e));
    }
    let mut out = BTreeSet::new();
    for (a, mut rs) in by {
        rs.sort();
        let mut cur: Option<(usize, usize)> = None;
        for (s, e) in rs {
            cur = match cur {
                None => Some((s, e)),
                Some((cs, ce)) if ce + 1 >= s => Some((cs, ce.max(e))),
                Some((cs, ce)) => {
                    out.insert((cs, ce, a.clone()));
                    Some((s, e))
                }
            };
        }
        if let Some((cs, ce)) = cur {
            out.insert((cs, ce, a.clone()));
        }
    }
    out
}

/// What must hold once the control plane has converged. Returns the list of problems.
pub async fn convergence_problems(net: &Net, holder: &Arc<BrokerHolder>, limit: u64) -> Vec<String> {
    convergence_problems_ext(net, holder, limit, false).await.0
}

/// `failed_members`: also judge proxies that are marked failed but are still members of a cluster and
/// reachable (C13: "all reachable proxies adopt the recovered view"; C07 exempts failed proxies).
/// Second result: how many such proxies were judged.
pub async fn convergence_problems_ext(net: &Net, holder: &Arc<BrokerHolder>, limit: u64, failed_members: bool) -> (Vec<String>, u64) {
    let mut judged_failed_members = 0u64;
    let mut problems = vec![];
    let st: MetaStore = match holder.get().get_all_data().await {
        Ok(s) => s,
        Err(e) => return (vec![format!("broker unavailable: {:?}", e)], 0),
    };
    let mut cl = Client::new(net, 900);
    let mut addrs: Vec<String> = st.all_proxies.keys().cloned().collect();
    addrs.sort();
    let down: BTreeSet<String> = net.inner.lock().down.clone();
    let still_migrating = st.clusters.values().any(|c| c.is_migrating());
    for a in addrs.iter() {
        if st.failures.contains_key(a) || down.contains(a) {
            continue;
        }
        if st.failed_proxies.contains(a) {
            let member = st.all_proxies.get(a).map(|p| p.cluster.is_some()).unwrap_or(false);
            if !(failed_members && member) {
                continue;
            }
            judged_failed_members += 1;
        }
        let want = match st.get_proxy_by_address(a, limit) {
            Some(p) => p,
            None => continue,
        };
        let got_epoch = umctl(&mut cl, a, &[b"UMCTL", b"GETEPOCH"]).await.ok().as_ref().and_then(parse_epoch);
        if got_epoch != Some(want.get_epoch()) {
            problems.push(format!("proxy {} reports epoch {:?}, broker serves {}", a, got_epoch, want.get_epoch()));
            continue;
        }
        // a finished migration must not remain uncommitted
        if let Ok(Resp::Arr(Array::Arr(tasks))) = umctl(&mut cl, a, &[b"UMCTL", b"INFOMGR"]).await {
            if !tasks.is_empty() {
                problems.push(format!("proxy {} still reports {} finished but uncommitted migration task(s): {:?}", a, tasks.len(), tasks.iter().map(|t| resp_to_strings(t).join(" ")).collect::<Vec<_>>()));
            }
        }
        if want.get_cluster_name().is_some() {
            // routing: CLUSTER SLOTS must equal the broker's view (no migration pending at convergence)
            let mut expect: BTreeSet<(usize, usize, String)> = BTreeSet::new();
            for n in want.get_nodes() {
                if n.get_role() == Role::Master {
                    for sr in n.get_slots() {
                        for r in sr.get_range_list().get_ranges() {
                            expect.insert((r.start(), r.end(), a.clone()));
                        }
                    }
                }
            }
            for p in want.get_peers() {
                for sr in p.slots.iter() {
                    for r in sr.get_range_list().get_ranges() {
                        expect.insert((r.start(), r.end(), p.proxy_address.clone()));
                    }
                }
            }
            let pending = want.get_nodes().iter().any(|n| n.get_slots().iter().any(|s| !s.tag.is_stable())) || want.get_peers().iter().any(|p| p.slots.iter().any(|s| !s.tag.is_stable()));
            if !pending {
                match umctl(&mut cl, a, &[b"CLUSTER", b"SLOTS"]).await.ok().as_ref().and_then(parse_cluster_slots) {
                    Some(got) => {
                        if merge_ranges(&got) != merge_ranges(&expect) {
                            problems.push(format!("proxy {} advertises {:?} but the broker's view is {:?}", a, merge_ranges(&got), merge_ranges(&expect)));
                        }
                    }
                    None => problems.push(format!("proxy {} gave no CLUSTER SLOTS", a)),
                }
            }
            // replication roles as the proxy itself reports them (UMCTL INFOREPL): every local node with
            // its role and exactly the peers of the broker's view
            {
                let mut expect: BTreeSet<(String, String, Vec<String>)> = BTreeSet::new();
                for n in want.get_nodes() {
                    let role = if n.get_role() == Role::Master { "master" } else { "replica" };
                    let mut peers: Vec<String> = n.get_repl_meta().get_peers().iter().map(|p| format!("{}@{}", p.node_address, p.proxy_address)).collect();
                    peers.sort();
                    expect.insert((role.to_string(), n.get_address().to_string(), peers));
                }
                if let Ok(Resp::Arr(Array::Arr(items))) = umctl(&mut cl, a, &[b"UMCTL", b"INFOREPL"]).await {
                    let mut got: BTreeSet<(String, String, Vec<String>)> = BTreeSet::new();
                    for it in items.iter() {
                        let lines = resp_to_strings(it);
                        let mut role = String::new();
                        let mut node = String::new();
                        let mut peers = vec![];
                        for l in lines.iter() {
                            let l = l.trim();
                            if let Some(v) = l.strip_prefix("role:") {
                                role = v.to_string();
                            } else if let Some(v) = l.strip_prefix("node_address:") {
                                node = v.to_string();
                            } else if let Some(v) = l.strip_prefix("replica:").or_else(|| l.strip_prefix("master:")) {
                                peers.push(v.to_string());
                            }
                        }
                        peers.sort();
                        if !node.is_empty() {
                            got.insert((role, node, peers));
                        }
                    }
                    if got != expect {
                        problems.push(format!("proxy {} reports replication roles {:?} but the broker's view is {:?}", a, got, expect));
                    }
                }
            }
            // replication roles as applied to the Redis nodes
            for n in want.get_nodes() {
                if let Some(r) = net.redis(n.get_address()) {
                    let slaveof = r.lock().slaveof.clone();
                    match n.get_role() {
                        Role::Master => {
                            if slaveof.is_some() {
                                problems.push(format!("node {} is master in the broker's view but is SLAVEOF {:?}", n.get_address(), slaveof));
                            }
                        }
                        Role::Replica => {
                            let m = n.get_repl_meta().get_peers().first().map(|p| p.node_address.clone());
                            if slaveof != m {
                                problems.push(format!("node {} should replicate {:?} but is SLAVEOF {:?}", n.get_address(), m, slaveof));
                            }
                        }
                    }
                }
            }
        }
    }
    if still_migrating && problems.is_empty() {
        // reported separately: the property only demands that FINISHED migrations are committed
        problems.push("INFO-ONLY: a migration is still running".to_string());
    }
    (problems, judged_failed_members)
}

async fn run_control(prop: &'static str, plan: &Value, want_sample: bool) -> RunRecord {
    let mut rec = RunRecord::default();
    *crate::broker::SIM_CLOCK_START.lock() = Some(tokio::time::Instant::now());
    let seed = plan["seed"].as_u64().unwrap_or(0);
    let cfg = &plan["cfg"];
    let n_proxies = cfg["n_proxies"].as_u64().unwrap_or(6) as usize;
    let start_chunks = cfg["start_chunks"].as_u64().unwrap_or(1) as usize;
    let n_coord = cfg["n_coord"].as_u64().unwrap_or(1) as usize;
    let limit = cfg["migration_limit"].as_u64().unwrap_or(0);
    let compress = cfg["compress_meta"].as_bool().unwrap_or(false);
    let stranded = cfg["stranded"].as_bool().unwrap_or(false);
    let net = Net::new(seed, cfg["max_latency_ms"].as_u64().unwrap_or(3));
    {
        let mut g = net.inner.lock();
        g.record_src_prefixes = vec!["coord".to_string()];
        for f in plan["faults"].as_array().cloned().unwrap_or_default() {
            let kind = match f["kind"].as_str().unwrap_or("") {
                "drop_request" => FaultKind::DropRequest,
                "drop_reply" => FaultKind::DropReply,
                "duplicate" => FaultKind::Duplicate,
                "reset" => FaultKind::Reset,
                _ => FaultKind::Stall(2500),
            };
            g.faults.push(FaultDirective { src_prefix: f["src"].as_str().unwrap_or("coord").to_string(), dst: f["dst"].as_str().unwrap_or("").to_string(), nth: f["nth"].as_u64().unwrap_or(0), kind, matched: 0, fired: false });
        }
        let pm = cfg["chaos_pm"].as_u64().unwrap_or(0);
        if pm > 0 {
            g.chaos_src_prefix = "coord".to_string();
            g.chaos_drop_req_pm = pm;
            g.chaos_drop_rep_pm = pm;
            g.chaos_dup_pm = pm / 2;
            g.chaos_until_ms = FAULT_WINDOW_MS;
        }
    }
    let pp = ProxyParams::default();
    let bcfg = BrokerCfg { ordered: false, migration_limit: limit, quorum: cfg["quorum"].as_u64().unwrap_or(1), ttl: 5, hosts: vec![1; n_proxies] };
    let holder = BrokerHolder::new(bcfg);
    let mut proxies: BTreeMap<usize, SimProxy> = BTreeMap::new();
    for h in 0..n_proxies {
        spawn_redis_nodes(&net, h, 0, seed);
        proxies.insert(h, spawn_proxy(&net, &proxy_addr(h, 0), &pp, 1));
        holder.add_proxy(h, 0).await.expect("add_proxy");
    }
    holder.get().add_cluster("c0".to_string(), start_chunks * 4).await.expect("add_cluster");
    let mut coords: Vec<Option<Coordinator>> = vec![];
    for c in 0..n_coord {
        coords.push(Some(spawn_coordinator(&net, &holder, c, compress, false)));
    }

    // a little data so that migrations have something to move
    tokio::time::sleep(Duration::from_millis(2500)).await;
    {
        let mut cl = Client::new(&net, 800);
        for k in 0..cfg["n_keys"].as_u64().unwrap_or(8) {
            let key = format!("ck{}", k);
            let _ = cl.call(&proxy_addr(0, 0), &bulk_cmd(&[b"SET", key.as_bytes(), b"v"]), 4).await;
        }
    }

    // ---- timeline
    let t0 = tokio::time::Instant::now();
    let mut ops: Vec<Value> = plan["ops"].as_array().cloned().unwrap_or_default();
    ops.sort_by_key(|o| o["at"].as_u64().unwrap_or(0));
    // pending heals / restarts scheduled by earlier ops: (at_ms, kind, index)
    let mut later: Vec<(u64, String, usize)> = vec![];
    let mut snapshots: Vec<(u64, MetaStore)> = vec![];
    let mut epoch_samples: BTreeMap<(String, u64), u64> = BTreeMap::new(); // (addr, generation) -> last GETEPOCH
    let mut gens: BTreeMap<usize, u64> = (0..n_proxies).map(|h| (h, 1u64)).collect();
    let mut gen_started_seq: BTreeMap<(String, u64), u64> = BTreeMap::new();
    let mut broker_restarts = 0u64;
    let mut monitor = Client::new(&net, 700);
    let mut next_op = 0usize;
    let step = 100u64;
    let total_ms = FAULT_WINDOW_MS + LIVENESS_BOUND_MS;
    let mut healed = false;
    let mut t = 0u64;
    while t <= total_ms {
        let target = t0 + Duration::from_millis(t);
        if tokio::time::Instant::now() < target {
            tokio::time::sleep_until(target).await;
        }
        // scheduled follow-ups
        let due: Vec<(u64, String, usize)> = later.iter().filter(|(at, _, _)| *at <= t).cloned().collect();
        later.retain(|(at, _, _)| *at > t);
        for (_, kind, idx) in due {
            match kind.as_str() {
                "heal_proxy" | "heal_proxy_noreg" => {
                    net.set_down(&proxy_addr(idx, 0), false);
                    net.event(&kind, 5, &proxy_addr(idx, 0));
                    // the operator brings the proxy back: re-registration clears its failed mark
                    // (not in the stranded variant: the proxy is reachable again but stays marked failed)
                    if kind == "heal_proxy" {
                        let _ = holder.add_proxy(idx, 0).await;
                    }
                }
                "restart_coord" => {
                    if coords[idx].is_none() {
                        coords[idx] = Some(spawn_coordinator(&net, &holder, idx, compress, false));
                        rec.fault("coordinator_restart");
                        net.event("restart_coord", 5, "");
                    }
                }
                "migrate" => {
                    let r = holder.get().migrate_slots("c0".to_string()).await;
                    net.event("admin_migrate", 5, &format!("{}", r.is_ok()));
                }
                _ => {}
            }
        }
        while next_op < ops.len() && ops[next_op]["at"].as_u64().unwrap_or(0) <= t && t < FAULT_WINDOW_MS {
            let o = ops[next_op].clone();
            next_op += 1;
            match o["op"].as_str().unwrap_or("") {
                "scale" => {
                    let svc = holder.get();
                    let stc = svc.get_all_data().await.expect("data");
                    let chunks = stc.clusters.values().next().map(|c| c.chunks.len()).unwrap_or(0);
                    if o["up"].as_bool().unwrap_or(true) {
                        if svc.auto_scale_up_nodes("c0".to_string(), (chunks + 1) * 4).await.is_ok() {
                            // second phase after the new proxies had time to sync
                            later.push((t + 1500, "migrate".to_string(), 0));
                        }
                    } else if chunks >= 2 {
                        let _ = svc.migrate_slots_to_scale_down("c0".to_string(), (chunks - 1) * 4).await;
                    }
                    net.event("admin_scale", 5, "");
                }
                "proxy_down" => {
                    let p = o["p"].as_u64().unwrap_or(0) as usize % n_proxies;
                    // never take down both halves of a chunk at once
                    let partner = p ^ 1;
                    let partner_down = net.inner.lock().down.contains(&proxy_addr(partner, 0));
                    if !partner_down {
                        net.set_down(&proxy_addr(p, 0), true);
                        net.event("proxy_down", 5, &proxy_addr(p, 0));
                        rec.fault("proxy_unreachable");
                        let hk = if o["no_reregister"].as_bool().unwrap_or(false) { "heal_proxy_noreg" } else { "heal_proxy" };
                        later.push(((t + o["for_ms"].as_u64().unwrap_or(1000)).min(FAULT_WINDOW_MS), hk.to_string(), p));
                    }
                }
                "restart_proxy" => {
                    let p = o["p"].as_u64().unwrap_or(0) as usize % n_proxies;
                    let g = gens.get(&p).cloned().unwrap_or(1);
                    net.kill_source(&format!("proxy:{}#{}", proxy_addr(p, 0), g));
                    let ng = g + 1;
                    gens.insert(p, ng);
                    let np = spawn_proxy(&net, &proxy_addr(p, 0), &pp, ng);
                    let seq = net.event("proxy_restart_empty", 5, &proxy_addr(p, 0));
                    gen_started_seq.insert((proxy_addr(p, 0), ng), seq);
                    proxies.insert(p, np);
                    rec.fault("proxy_restart_empty");
                }
                "crash_coord" => {
                    let c = o["c"].as_u64().unwrap_or(0) as usize % n_coord;
                    if let Some(mut co) = coords[c].take() {
                        co.crash();
                        net.event("crash_coord", 5, "");
                        rec.fault("coordinator_crash");
                        later.push(((t + o["restart_after"].as_u64().unwrap_or(0)).min(FAULT_WINDOW_MS), "restart_coord".to_string(), c));
                    }
                }
                "broker_restart" => {
                    let age = o["age"].as_u64().unwrap_or(0) as usize;
                    if !snapshots.is_empty() {
                        let idx = snapshots.len().saturating_sub(1 + age);
                        let snap = snapshots[idx].1.clone();
                        let snap_epoch = snap.get_global_epoch();
                        if holder.restart_from(snap).is_ok() {
                            broker_restarts += 1;
                            rec.fault("broker_restart_from_snapshot");
                            net.event("broker_restart", 5, &format!("snapshot epoch {}", snap_epoch));
                            // epoch recovery: collect the largest epoch held by any reachable proxy
                            let mut max_epoch = 0u64;
                            for h in 0..n_proxies {
                                if let Ok(r) = umctl(&mut monitor, &proxy_addr(h, 0), &[b"UMCTL", b"GETEPOCH"]).await {
                                    if let Some(e) = parse_epoch(&r) {
                                        max_epoch = max_epoch.max(e);
                                    }
                                }
                            }
                            INJECTED_MAX_EPOCH.store(max_epoch, Ordering::SeqCst);
                            let _ = holder.get().recover_epoch().await;
                            INJECTED_MAX_EPOCH.store(u64::MAX, Ordering::SeqCst);
                            let after = holder.get().get_all_data().await.expect("data");
                            // C13: every view served now must exceed every installed epoch
                            let mut addrs: Vec<String> = after.all_proxies.keys().cloned().collect();
                            addrs.sort();
                            for a in addrs {
                                if let Some(p) = after.get_proxy_by_address(&a, limit) {
                                    if p.get_epoch() <= max_epoch {
                                        rec.violate(Violation::new("C13", "recovered-epoch-not-greater", format!("after broker restart from snapshot epoch {} and recovery with max proxy epoch {}: view of {} has epoch {}", snap_epoch, max_epoch, a, p.get_epoch())));
                                    }
                                }
                            }
                            snapshots.clear();
                        }
                    }
                }
                _ => {}
            }
        }
        // "migrate" follow-up of the two-phase scale-out
        // (kept separate because it is not an injected fault)
        // broker snapshots every 500 ms
        if t % 500 == 0 {
            if let Ok(s) = holder.get().get_all_data().await {
                snapshots.push((t, s));
                if snapshots.len() > 16 {
                    snapshots.remove(0);
                }
            }
        }
        // epoch monitor: a proxy's reported epoch never decreases within one incarnation
        if t % 200 == 0 {
            for h in 0..n_proxies {
                let a = proxy_addr(h, 0);
                if net.inner.lock().down.contains(&a) {
                    continue;
                }
                let g = gens.get(&h).cloned().unwrap_or(1);
                if let Ok(r) = umctl(&mut monitor, &a, &[b"UMCTL", b"GETEPOCH"]).await {
                    if let Some(e) = parse_epoch(&r) {
                        let key = (a.clone(), g);
                        if let Some(prev) = epoch_samples.get(&key) {
                            if e < *prev {
                                rec.violate(Violation::new(prop, "proxy-epoch-decreased", format!("proxy {} (incarnation {}) reported epoch {} after {}", a, g, e, prev)));
                            }
                        }
                        epoch_samples.insert(key, e);
                    }
                }
            }
        }
        if t >= FAULT_WINDOW_MS && !healed {
            healed = true;
            // faults stop: heal everything, make sure a coordinator runs
            let downs: Vec<String> = net.inner.lock().down.iter().cloned().collect();
            for d in downs {
                net.set_down(&d, false);
            }
            // the operator re-registers every proxy the broker has marked failed or under report
            if let Ok(stc) = holder.get().get_all_data().await {
                let hs = if stranded { 0 } else { n_proxies };
                for h in 0..hs {
                    let a = proxy_addr(h, 0);
                    if stc.failed_proxies.contains(&a) || stc.failures.contains_key(&a) {
                        let _ = holder.add_proxy(h, 0).await;
                    }
                }
            }
            {
                let mut g = net.inner.lock();
                g.chaos_until_ms = 0;
                for f in g.faults.iter_mut() {
                    f.fired = true;
                }
            }
            for c in 0..n_coord {
                if coords[c].is_none() {
                    coords[c] = Some(spawn_coordinator(&net, &holder, c, compress, false));
                    rec.fault("coordinator_restart");
                }
            }
            later.retain(|(_, k, _)| k == "migrate");
            net.event("faults_stop", 5, "");
        }
        t += step;
    }

    // ---- liveness after the bound
    let (mut problems, judged_failed_members) = convergence_problems_ext(&net, &holder, limit, prop == "C13").await;
    rec.probe_n("failed_but_member_proxies_judged", judged_failed_members);
    if problems.iter().any(|p| p.starts_with("INFO-ONLY")) {
        rec.probe("migration_still_running_at_end");
        problems.retain(|p| !p.starts_with("INFO-ONLY"));
    }
    rec.vtime_ms = net.now_ms();
    if !problems.is_empty() {
        let tag = if problems.iter().any(|p| p.contains("uncommitted")) { "migration-not-committed" } else { "not-converged" };
        rec.violate(Violation::new(prop, tag, format!("{} virtual seconds after the last fault: {}", LIVENESS_BOUND_MS / 1000, problems.join(" | "))));
    }
    for c in coords.iter_mut() {
        if let Some(co) = c.as_mut() {
            co.crash();
        }
    }

    // ---- safety over the recorded call log
    let calls = net.inner.lock().calls.clone();
    // (S1) accepted epochs strictly increase per proxy incarnation
    let mut last_ok: BTreeMap<(String, u64, &'static str), u64> = BTreeMap::new();
    let mut incarnation_of = |addr: &str, seq: u64| -> u64 {
        let mut g = 1u64;
        for ((a, gen), s) in gen_started_seq.iter() {
            if a == addr && *s <= seq && *gen > g {
                g = *gen;
            }
        }
        g
    };
    let mut ok_calls = 0u64;
    for c in calls.iter() {
        if c.cmd.len() < 4 {
            continue;
        }
        let name = String::from_utf8_lossy(&c.cmd[0]).to_uppercase();
        let sub = String::from_utf8_lossy(&c.cmd[1]).to_uppercase();
        if name != "UMCTL" {
            continue;
        }
        let (kind, epoch, flags): (&'static str, Option<u64>, String) = match sub.as_str() {
            "SETCLUSTER" => ("cluster", c.cmd.get(3).and_then(|b| std::str::from_utf8(b).ok()).and_then(|s| s.parse().ok()), c.cmd.get(4).map(|b| String::from_utf8_lossy(b).to_string()).unwrap_or_default()),
            "SETREPL" => ("repl", c.cmd.get(2).and_then(|b| std::str::from_utf8(b).ok()).and_then(|s| s.parse().ok()), c.cmd.get(3).map(|b| String::from_utf8_lossy(b).to_string()).unwrap_or_default()),
            _ => continue,
        };
        let accepted = c.reply.as_ref().map(|r| r.starts_with('+')).unwrap_or(false);
        if !accepted {
            continue;
        }
        ok_calls += 1;
        let e = match epoch {
            Some(e) => e,
            None => continue,
        };
        let g = incarnation_of(&c.dst, c.seq);
        let key = (c.dst.clone(), g, kind);
        if let Some(prev) = last_ok.get(&key) {
            if e <= *prev && !flags.contains("FORCE") {
                rec.violate(Violation::new(prop, "older-metadata-accepted", format!("proxy {} (incarnation {}) accepted {} metadata with epoch {} after epoch {} (call seq {})", c.dst, g, kind, e, prev, c.seq)));
            }
        }
        last_ok.insert(key, e);
    }
    rec.probe_n("meta_messages_accepted", ok_calls);
    // (S2) every finished migration committed at most once
    let commits = holder.commits_ok.lock().clone();
    let mut seen: BTreeMap<String, u64> = BTreeMap::new();
    for (_, k) in commits.iter() {
        *seen.entry(k.clone()).or_insert(0) += 1;
    }
    // a broker restart from an older snapshot legitimately re-opens a migration: only judged without it
    if broker_restarts == 0 {
        for (k, n) in seen.iter() {
            if *n > 1 {
                rec.violate(Violation::new(prop, "migration-committed-twice", format!("migration {} was committed successfully {} times", k, n)));
            }
        }
    }
    rec.probe_n("migrations_committed", commits.len() as u64);
    rec.probe_n("commit_attempts_answered_not_found", holder.commits_notfound.load(Ordering::SeqCst));
    // (S3) inside one migration-sync round: destination before source (migration_limit = 1 only: rounds cannot interleave)
    if limit == 1 && broker_restarts == 0 {
        let rounds = holder.commit_rounds.lock().clone();
        for (s_c, coord, srcp, dstp) in rounds.iter() {
            let label = format!("{}/msync", coord);
            let next_commit = rounds.iter().filter(|(s, c, _, _)| c == coord && s > s_c).map(|r| r.0).min().unwrap_or(u64::MAX);
            let to_src = calls.iter().find(|c| c.src == label && c.seq > *s_c && c.seq < next_commit && &c.dst == srcp && c.cmd.len() > 1 && c.cmd[1].eq_ignore_ascii_case(b"SETCLUSTER"));
            if let Some(cs) = to_src {
                rec.probe("msync_rounds_checked");
                let dst_ok = calls.iter().any(|c| c.src == label && c.seq > *s_c && c.seq < cs.seq && &c.dst == dstp && c.cmd.len() > 1 && c.cmd[1].eq_ignore_ascii_case(b"SETCLUSTER") && c.reply.as_ref().map(|r| r.starts_with('+') || r.contains("OLD_EPOCH")).unwrap_or(false));
                if !dst_ok {
                    rec.violate(Violation::new(prop, "source-updated-before-destination", format!("after committing a migration {} -> {} (seq {}), {} sent SETCLUSTER to the source (seq {}) without a preceding successful SETCLUSTER to the destination", srcp, dstp, s_c, label, cs.seq)));
                }
            }
        }
    }

    {
        let g = net.inner.lock();
        rec.trace_hash = g.trace.0;
        rec.sched_hash = g.sched.0;
        rec.steps = g.seq;
        for (k, v) in g.fault_counts.iter() {
            *rec.faults.entry(k.clone()).or_insert(0) += v;
        }
    }
    let st = holder.get().get_all_data().await.expect("data");
    let mut sh = crate::rng::TraceHash::new();
    sh.add(serde_json::to_value(&st).map(|v| v.to_string()).unwrap_or_default().as_bytes());
    rec.state_hash = sh.0;
    let faults_fired: u64 = rec.faults.values().sum();
    let level = cfg["level"].as_u64().unwrap_or(0);
    rec.nontrivial = if prop == "C13" { broker_restarts > 0 } else { !commits.is_empty() && (faults_fired > 0 || level == 0) };
    rec.probe_n("broker_restarts", broker_restarts);
    if want_sample {
        rec.sample = Some(json!({"plan": plan, "commits": commits.len(), "faults": rec.faults, "final_epoch": st.get_global_epoch(), "problems": problems}));
    }
    let _ = (node_addrs(0, 0), &proxies);
    rec
}
