//! Independent reference checks over the cluster descriptions the broker serves.
//! Nothing in here calls into /repo to compute an expected answer; it only
//! reads the served values through their public accessors.

use undermoon::common::cluster::{Cluster, MigrationMeta, Node, Proxy, Role, SlotRange, SlotRangeTag};

pub const SLOTS: usize = 16384;

#[derive(Clone, Debug, PartialEq, Eq, PartialOrd, Ord)]
pub struct Seg {
    pub start: usize,
    pub end: usize,
    pub node: String,
    pub proxy: String,
}

#[derive(Clone, Debug, PartialEq, Eq)]
pub struct Mig {
    pub ranges: Vec<(usize, usize)>,
    pub importing: bool,
    pub epoch: u64,
    pub src_proxy: String,
    pub src_node: String,
    pub dst_proxy: String,
    pub dst_node: String,
    pub on_node: String,
    pub on_proxy: String,
}

fn ranges_of(sr: &SlotRange) -> Vec<(usize, usize)> {
    sr.get_range_list().get_ranges().iter().map(|r| (r.start(), r.end())).collect()
}

fn meta_of(tag: &SlotRangeTag) -> Option<(&MigrationMeta, bool)> {
    match tag {
        SlotRangeTag::Migrating(m) => Some((m, false)),
        SlotRangeTag::Importing(m) => Some((m, true)),
        SlotRangeTag::None => None,
    }
}

/// Owned segments (stable + migrating-out of masters) and migration records of a node list.
pub fn collect(nodes: &[Node]) -> Result<(Vec<Seg>, Vec<Mig>), String> {
    let mut segs = vec![];
    let mut migs = vec![];
    for n in nodes {
        if n.get_role() == Role::Replica && !n.get_slots().is_empty() {
            return Err(format!("replica {} carries slot ranges", n.get_address()));
        }
        for sr in n.get_slots() {
            let rs = ranges_of(sr);
            if rs.is_empty() {
                // an empty range list owns nothing; not an error by itself
            }
            for (s, e) in rs.iter() {
                if s > e || *e >= SLOTS {
                    return Err(format!("invalid range {}-{} on {}", s, e, n.get_address()));
                }
            }
            match meta_of(&sr.tag) {
                None => {
                    for (s, e) in rs {
                        segs.push(Seg { start: s, end: e, node: n.get_address().to_string(), proxy: n.get_proxy_address().to_string() });
                    }
                }
                Some((m, importing)) => {
                    migs.push(Mig {
                        ranges: rs.clone(),
                        importing,
                        epoch: m.epoch,
                        src_proxy: m.src_proxy_address.clone(),
                        src_node: m.src_node_address.clone(),
                        dst_proxy: m.dst_proxy_address.clone(),
                        dst_node: m.dst_node_address.clone(),
                        on_node: n.get_address().to_string(),
                        on_proxy: n.get_proxy_address().to_string(),
                    });
                    if !importing {
                        for (s, e) in rs {
                            segs.push(Seg { start: s, end: e, node: n.get_address().to_string(), proxy: n.get_proxy_address().to_string() });
                        }
                    }
                }
            }
        }
    }
    Ok((segs, migs))
}

/// Do the segments tile 0..16383 exactly once?
pub fn check_tiling(segs: &mut Vec<Seg>) -> Result<(), String> {
    segs.sort();
    let mut next = 0usize;
    for s in segs.iter() {
        if s.start < next {
            return Err(format!("slot {} owned twice (second owner {})", s.start, s.node));
        }
        if s.start > next {
            return Err(format!("slots {}-{} have no owner", next, s.start - 1));
        }
        next = s.end + 1;
    }
    if next != SLOTS {
        return Err(format!("slots {}-{} have no owner", next, SLOTS - 1));
    }
    Ok(())
}

pub fn check_twins(nodes: &[Node], migs: &[Mig]) -> Result<(), String> {
    for m in migs.iter() {
        let twins: Vec<&Mig> = migs
            .iter()
            .filter(|o| o.importing != m.importing && o.ranges == m.ranges)
            .collect();
        if twins.len() != 1 {
            return Err(format!(
                "{} range {:?} epoch {} on {} has {} {} twins",
                if m.importing { "importing" } else { "migrating" },
                m.ranges, m.epoch, m.on_node, twins.len(),
                if m.importing { "migrating" } else { "importing" }
            ));
        }
        let t = twins[0];
        if t.epoch != m.epoch || t.src_node != m.src_node || t.src_proxy != m.src_proxy || t.dst_node != m.dst_node || t.dst_proxy != m.dst_proxy {
            return Err(format!("twin metadata differs for range {:?}: {:?} vs {:?}", m.ranges, m, t));
        }
        let (want_node, want_proxy) = if m.importing { (&m.dst_node, &m.dst_proxy) } else { (&m.src_node, &m.src_proxy) };
        if &m.on_node != want_node || &m.on_proxy != want_proxy {
            return Err(format!(
                "{} range {:?} sits on {}@{} but its metadata names {}@{}",
                if m.importing { "importing" } else { "migrating" },
                m.ranges, m.on_node, m.on_proxy, want_node, want_proxy
            ));
        }
        // destination must be a master of the cluster on dst_proxy
        let dst = nodes.iter().find(|n| n.get_address() == m.dst_node);
        match dst {
            None => return Err(format!("migration {:?} names unknown destination node {}", m.ranges, m.dst_node)),
            Some(d) => {
                if d.get_role() != Role::Master || d.get_proxy_address() != m.dst_proxy {
                    return Err(format!("destination {} of {:?} is not a master on {}", m.dst_node, m.ranges, m.dst_proxy));
                }
            }
        }
        let src = nodes.iter().find(|n| n.get_address() == m.src_node);
        match src {
            None => return Err(format!("migration {:?} names unknown source node {}", m.ranges, m.src_node)),
            Some(d) => {
                if d.get_role() != Role::Master || d.get_proxy_address() != m.src_proxy {
                    return Err(format!("source {} of {:?} is not a master on {}", m.src_node, m.ranges, m.src_proxy));
                }
            }
        }
    }
    Ok(())
}

/// C01 on a whole-cluster view.
pub fn check_cluster_view(c: &Cluster) -> Result<Vec<Seg>, String> {
    let (mut segs, migs) = collect(c.get_nodes())?;
    check_tiling(&mut segs)?;
    check_twins(c.get_nodes(), &migs)?;
    Ok(segs)
}

/// slot -> owning proxy, as segments merged by proxy
pub fn proxy_ownership(segs: &[Seg]) -> Vec<(usize, usize, String)> {
    let mut v: Vec<(usize, usize, String)> = segs.iter().map(|s| (s.start, s.end, s.proxy.clone())).collect();
    v.sort();
    let mut out: Vec<(usize, usize, String)> = vec![];
    for (s, e, p) in v {
        if let Some(last) = out.last_mut() {
            if last.2 == p && last.1 + 1 == s {
                last.1 = e;
                continue;
            }
        }
        out.push((s, e, p));
    }
    out
}

/// C01 on a per-proxy view, and agreement with the whole-cluster view.
pub fn check_proxy_view(p: &Proxy, cluster: Option<&Cluster>, cluster_segs: Option<&[Seg]>) -> Result<(), String> {
    let addr = p.get_address().to_string();
    match (p.get_cluster_name(), cluster) {
        (None, _) => {
            if !p.get_peers().is_empty() {
                return Err(format!("free proxy {} has peers", addr));
            }
            Ok(())
        }
        (Some(name), None) => Err(format!("proxy {} names cluster {} which is not served", addr, name)),
        (Some(_), Some(c)) => {
            let local = p.get_nodes();
            let want: Vec<&Node> = c.get_nodes().iter().filter(|n| n.get_proxy_address() == addr).collect();
            if want.len() != local.len() || want.iter().zip(local.iter()).any(|(a, b)| *a != b) {
                return Err(format!("local nodes of {} differ between proxy view and cluster view", addr));
            }
            if p.get_epoch() != c.get_epoch() {
                return Err(format!("proxy view epoch {} != cluster view epoch {}", p.get_epoch(), c.get_epoch()));
            }
            let (mut segs, mut migs) = collect(&local)?;
            for peer in p.get_peers() {
                if peer.proxy_address == addr {
                    return Err(format!("proxy {} lists itself as peer", addr));
                }
                for sr in peer.slots.iter() {
                    let rs = ranges_of(sr);
                    match meta_of(&sr.tag) {
                        Some((m, true)) => {
                            migs.push(Mig { ranges: rs, importing: true, epoch: m.epoch, src_proxy: m.src_proxy_address.clone(), src_node: m.src_node_address.clone(), dst_proxy: m.dst_proxy_address.clone(), dst_node: m.dst_node_address.clone(), on_node: m.dst_node_address.clone(), on_proxy: peer.proxy_address.clone() });
                        }
                        Some((m, false)) => {
                            migs.push(Mig { ranges: rs.clone(), importing: false, epoch: m.epoch, src_proxy: m.src_proxy_address.clone(), src_node: m.src_node_address.clone(), dst_proxy: m.dst_proxy_address.clone(), dst_node: m.dst_node_address.clone(), on_node: m.src_node_address.clone(), on_proxy: peer.proxy_address.clone() });
                            for (s, e) in rs {
                                segs.push(Seg { start: s, end: e, node: String::new(), proxy: peer.proxy_address.clone() });
                            }
                        }
                        None => {
                            for (s, e) in rs {
                                if s > e || e >= SLOTS {
                                    return Err(format!("invalid peer range {}-{}", s, e));
                                }
                                segs.push(Seg { start: s, end: e, node: String::new(), proxy: peer.proxy_address.clone() });
                            }
                        }
                    }
                }
            }
            check_tiling(&mut segs).map_err(|e| format!("per-proxy view of {}: {}", addr, e))?;
            // every migrating range visible here has exactly one importing twin visible here
            for m in migs.iter() {
                let twins = migs.iter().filter(|o| o.importing != m.importing && o.ranges == m.ranges && o.epoch == m.epoch && o.src_node == m.src_node && o.dst_node == m.dst_node && o.src_proxy == m.src_proxy && o.dst_proxy == m.dst_proxy).count();
                if twins != 1 {
                    return Err(format!("per-proxy view of {}: range {:?} has {} twins", addr, m.ranges, twins));
                }
                let want_proxy = if m.importing { &m.dst_proxy } else { &m.src_proxy };
                if &m.on_proxy != want_proxy {
                    return Err(format!("per-proxy view of {}: range {:?} listed under {} but metadata names {}", addr, m.ranges, m.on_proxy, want_proxy));
                }
            }
            if let Some(cs) = cluster_segs {
                if proxy_ownership(&segs) != proxy_ownership(cs) {
                    return Err(format!("per-proxy view of {} assigns slots to other proxies than the cluster view", addr));
                }
            }
            Ok(())
        }
    }
}

/// Structural replication invariant (C06 clause): every master has exactly one
/// replica, on another proxy, with mutually consistent peer records.
pub fn check_repl_pairs(c: &Cluster) -> Result<(), String> {
    for n in c.get_nodes() {
        let peers = n.get_repl_meta().get_peers();
        if peers.len() != 1 {
            return Err(format!("node {} has {} replication peers", n.get_address(), peers.len()));
        }
        let pr = &peers[0];
        let other = match c.get_nodes().iter().find(|o| o.get_address() == pr.node_address) {
            Some(o) => o,
            None => return Err(format!("peer {} of {} is not in the cluster", pr.node_address, n.get_address())),
        };
        if other.get_proxy_address() != pr.proxy_address {
            return Err(format!("peer record of {} names proxy {} but {} is on {}", n.get_address(), pr.proxy_address, other.get_address(), other.get_proxy_address()));
        }
        if other.get_proxy_address() == n.get_proxy_address() {
            return Err(format!("{} and its replication peer are on the same proxy", n.get_address()));
        }
        if other.get_role() == n.get_role() {
            return Err(format!("{} and its peer {} have the same role {:?}", n.get_address(), other.get_address(), n.get_role()));
        }
        let back = other.get_repl_meta().get_peers();
        if back.len() != 1 || back[0].node_address != n.get_address() || back[0].proxy_address != n.get_proxy_address() {
            return Err(format!("peer records of {} and {} are not mutual", n.get_address(), other.get_address()));
        }
    }
    Ok(())
}
